"""C02 - valid documents are accepted and decoded without loss."""
import json

from vlib.valuecheck import build_cases, evaluate, replay, replay_findings  # noqa: F401
from vlib.kitchen import run_cases, json_eq, Docs, types_of

PROPS_FILE = "Props/C02.v"
CLASSES = {"valid", "number-valid", "string-valid", "items-valid", "enum-member", "optional-absent", "null-allowed"}


def get_path(doc, path):
    for p in path:
        if isinstance(doc, dict) and p in doc:
            doc = doc[p]
        elif isinstance(doc, list) and isinstance(p, int) and p < len(doc):
            doc = doc[p]
        else:
            return None, False
    return doc, True


def empty(v):
    return v is None or v is False or v == "" or v == [] or v == {} or (isinstance(v, (int, float)) and not isinstance(v, bool) and v == 0)


def roundtrip_problem(c, d, out):
    """every non-empty declared value comes back unchanged; undeclared keys of objects that allow them are collected"""
    dg = Docs(c.schema, None)
    for path, s0, s, v in dg.sites(c.schema, d["doc"]):
        # position of this value in the marshalled output: keys that are additional properties of an object with declared
        # properties live under "AdditionalProperties"
        opath = []
        cur = c.schema
        ok_path = True
        for p in path:
            r = dg.resolve(cur)
            if isinstance(p, int):
                cur = r.get("items", {})
                opath.append(p)
            elif p in r.get("properties", {}):
                cur = r["properties"][p]
                opath.append(p)
            else:
                cur = r.get("additionalProperties") if isinstance(r.get("additionalProperties"), dict) else {}
                if r.get("properties"):
                    opath += ["AdditionalProperties", p]
                else:
                    opath.append(p)
        if isinstance(v, (dict, list)):
            if isinstance(v, dict) and s.get("properties") and s.get("additionalProperties") not in (None, False):
                extra = {k: x for k, x in v.items() if k not in s["properties"]}
                got, ok = get_path(out, tuple(opath) + ("AdditionalProperties",))
                if extra and not (ok and json_eq(extra, got)):
                    return "additional properties %s at %s were collected as %s" % (json.dumps(extra), "/".join(map(str, path)) or "root", json.dumps(got))
                if not extra and ok and got not in (None, {}):
                    return "no additional properties at %s but the map holds %s" % ("/".join(map(str, path)) or "root", json.dumps(got))
            if not types_of(s) and not s.get("enum"):
                got, ok = get_path(out, tuple(opath))
                if not empty(v) and not (ok and json_eq(v, got)):
                    return "untyped value %s at %s came back as %s" % (json.dumps(v), "/".join(map(str, path)), json.dumps(got))
            continue
        if empty(v):
            continue
        got, ok = get_path(out, tuple(opath))
        if c.minsized and not ok and path and isinstance(path[-1], int) and isinstance(get_path(out, tuple(opath[:-1]))[0], str):
            continue          # recorded finding C02-uint8-array-base64: []uint8 marshals as a base64 string
        if not (ok and json_eq(v, got)):
            return "value %s at %s came back as %s" % (json.dumps(v), "/".join(map(str, path)), json.dumps(got) if ok else "missing")
    return None


def subset_problem(doc, out, path=""):
    """every key of the document is in the re-marshalled value with the same value (objects key-wise, the rest exactly)"""
    if isinstance(doc, dict) and isinstance(out, dict):
        for k, v in doc.items():
            if k not in out:
                return "%s/%s is missing" % (path, k)
            pb = subset_problem(v, out[k], path + "/" + k)
            if pb:
                return pb
        return None
    if isinstance(doc, list) and isinstance(out, list) and len(doc) == len(out):
        for i, (a, b) in enumerate(zip(doc, out)):
            pb = subset_problem(a, b, "%s/%d" % (path, i))
            if pb:
                return pb
        return None
    return None if json_eq(doc, out) else "%s: %s came back as %s" % (path, json.dumps(doc), json.dumps(out))


def cross_file_cases():
    """one schema file that uses, at two positions, two definitions of the SAME name living in different files (its own `Address` and common.json's
    `Address`, which give the key `zip` different types): each position decodes by its own definition.  Positions: plain reference, allOf and anyOf
    with an inline branch, array items, map values; both orders of the two property names (generation visits properties in name order)."""
    from vlib.kitchen import Case
    # (every definition has a check of its own: an anyOf branch given by a reference to a type without checks is the recorded finding C01-anyof-ref-without-validators)
    local = {"type": "object", "properties": {"street": {"type": "string"}, "zip": {"type": "integer"}}, "required": ["zip"]}
    remote = {"type": "object", "properties": {"street": {"type": "string"}, "zip": {"type": "string"}, "country": {"type": "string"}}, "required": ["zip"]}
    common = {"$id": "http://x/common", "type": "object", "$defs": {"Address": remote}, "properties": {"hq": {"$ref": "#/$defs/Address"}}}
    third = {"$id": "http://x/third", "type": "object", "definitions": {"Address": {"type": "object", "properties": {"zip": {"type": "boolean"}}, "required": ["zip"]}}}
    lv, rv, tv = {"street": "s", "zip": 5}, {"street": "t", "zip": "Z1", "country": "c"}, {"zip": True}

    def pos(kind, ref, extra):
        inl = {"type": "object", "properties": {extra: {"type": "string"}}}
        if kind == "ref":
            return {"$ref": ref}, lambda v: v
        if kind in ("allOf", "anyOf"):
            return {kind: [{"$ref": ref}, inl]}, lambda v: dict(v, **{extra: "e"})
        if kind == "items":
            return {"type": "array", "items": {"$ref": ref}}, lambda v: [v, v]
        if kind == "items-allOf":
            return {"type": "array", "items": {"allOf": [{"$ref": ref}, inl]}}, lambda v: [dict(v, **{extra: "e"})]
        return {"type": "object", "additionalProperties": {"$ref": ref}}, lambda v: {"k": v}
    out = []
    kinds = ["ref", "allOf", "anyOf", "items", "items-allOf", "map"]
    n = 0
    for k1 in kinds:
        for k2 in kinds:
            if "allOf" not in (k1, k2) and "anyOf" not in (k1, k2) and "items-allOf" not in (k1, k2) and k1 != k2:
                continue
            for order in (0, 1):
                names = ("billing", "shipping") if order == 0 else ("shipping", "billing")      # local position first / remote position first
                s1, w1 = pos(k1, "#/$defs/Address", "vat")
                s2, w2 = pos(k2, "common.json#/$defs/Address", "notes")
                s3, w3 = pos(k2 if k2 != "map" else "ref", "third.json#/definitions/Address", "more")
                root = {"$id": "http://x/order", "type": "object", "$defs": {"Address": local}, "properties": {names[0]: s1, names[1]: s2, "zz": s3}}
                doc = {names[0]: w1(lv), names[1]: w2(rv), "zz": w3(tv)}
                docs = [{"doc": doc, "cls": "valid", "path": (), "expect": "ACC"},
                        {"doc": {names[0]: w1(lv)}, "cls": "valid", "path": (), "expect": "ACC"}, {"doc": {names[1]: w2(rv)}, "cls": "valid", "path": (), "expect": "ACC"}]
                out.append(Case("c02cf%d" % n, root, docs, fam="cross-file-same-definition-name/%s+%s" % (k1, k2),
                                extra_files={"common.json": json.dumps(common), "third.json": json.dumps(third)}, argv=["s.json"],
                                mappings=[("http://x/order", "Root"), ("http://x/common", "Common"), ("http://x/third", "Third")], no_model=True))
                n += 1
    return out


def run(ctx):
    ctx.proof_step(PROPS_FILE)
    n = 60 if ctx.tier == "quick" else 800
    from props import c05
    from vlib.pairwise import pairwise
    pw = [r for _, r in pairwise()]
    sysm = c05.e2e_fractional() + c05.e2e_edges()[::2] + c05.e2e_systematic(ctx)[::11] + pw
    cases = build_cases(ctx, len(sysm) + n, None, CLASSES, "c02x", docs_per=3 if ctx.tier == "quick" else 5, max_docs=60, extra_schemas=sysm)
    from vlib.pairwise import sized_enum
    ints = [r for r in sysm if '"integer"' in json.dumps(r) and not sized_enum(r)]
    ms = build_cases(ctx, len(ints), None, CLASSES, "c02m", docs_per=3, max_docs=60, extra_schemas=ints, minsized=True)
    for c in ms:
        c.fam = "min-sized/" + c.fam
    cases = cases + ms
    # every accepted spelling of every format, at a required, an optional and an item position (incl. the values that coincide with Go zero values)
    from vlib.kitchen import FMT_GOOD, Case
    for fi, (fmt, goods) in enumerate(sorted(FMT_GOOD.items())):
        leaf = {"type": "string", "format": fmt}
        root = {"type": "object", "properties": {"r": leaf, "o": leaf, "l": {"type": "array", "items": leaf}}, "required": ["r"]}
        docs = []
        for g in goods:
            docs.append({"doc": {"r": g}, "cls": "valid", "path": ()})
            docs.append({"doc": {"r": goods[0], "o": g, "l": [g, goods[-1]]}, "cls": "valid", "path": ()})
        cases.append(Case("c02f%d" % fi, root, docs, fam="formats"))
    # allOf members that describe the same property with complementary keywords, the first a definition also used on its own: every document
    # valid for the definition alone, or for the group, is accepted (the valid halves of the overlay family of C04-C07)
    from vlib.overlay import overlay_cases
    for kind in ("items", "string", "bound", "required"):
        cases = cases + overlay_cases(kind, "c02o" + kind[0])
    cf = cross_file_cases()
    run_cases(ctx, cases + cf, "c02")
    nv = evaluate(ctx, cases, CLASSES, {k: "valid" for k in CLASSES}, "valid documents")
    ncf = 0
    for c in cf:
        if not c.build_ok:
            if ncf < 3:
                ctx.violation("oracle", dict(c.replay_obj(), gen_err=c.gen_err, build_err=c.build_err), "%s: generation failed or does not build: %s" % (c.fam, (c.gen_err or c.build_err)[:300]))
            ncf += 1
            continue
        ctx.cov["programs"] += 1
        for di, d in enumerate(c.docs):
            o = d.get("obs") or {}
            ctx.count({"f": c.fam, "s": c.schema, "d": d["doc"]}, True, "cross-file-same-definition-name")
            pb = None
            if o.get("v") != "ACC":
                pb = "valid document is %s: %s" % (o.get("v"), o.get("err", "")[:200])
            else:
                try:
                    pb = subset_problem(d["doc"], json.loads(o["out"]))
                except Exception:
                    pb = "the decoded value cannot be marshalled back"
            if pb and ncf < 3:
                ctx.violation("oracle", c.replay_obj(di), "%s: document %s: %s (re-marshalled: %s)" % (c.fam, json.dumps(d["doc"])[:300], pb, o.get("out", "")[:300]))
                ncf += 1
                break
    for c in cases:
        if nv >= 6 or not c.build_ok:
            continue
        for di, d in enumerate(c.docs):
            o = d.get("obs") or {}
            if o.get("v") != "ACC" or not d.get("valid"):
                continue
            try:
                out = json.loads(o["out"])
            except Exception:
                ctx.violation("oracle", c.replay_obj(di), "decoded value cannot be marshalled back: %s" % o.get("out", "")[:200])
                nv += 1
                break
            pb = roundtrip_problem(c, d, out)
            if pb:
                ctx.violation("oracle", c.replay_obj(di), "valid document %s decoded with loss: %s (re-marshalled: %s)" % (json.dumps(d["doc"])[:300], pb, o["out"][:300]))
                nv += 1
                break
    from vlib import regress
    regress.search(ctx, {"C02"})          # the shape-agnostic search step (DESIGN.md 12.8)
    replay_findings(ctx)
    ctx.cov["rule"] = ("numeric systematic schemas (incl. fractional bounds on integers in the exact quadrant) and random in-guard schemas over every kind (constrained strings, integers, numbers, booleans, enums, formats, arrays to depth 3, nested objects, maps, "
                       "references, untyped, typed additionalProperties) x every position; per schema 3-5 documents built from the schema (boundary values of every constraint, "
                       "optional properties present/absent, null where allowed, additional keys) plus their validity-preserving mutants; oracle: accepted, every non-empty declared "
                       "value re-marshals unchanged, undeclared keys are exactly the additional-properties map; non-trivial = non-empty document; distinct by hash")
    c = cases[2]
    ctx.sample({"family": c.fam, "schema": c.schema, "doc": c.docs[0]["doc"], "impl_out": (c.docs[0].get("obs") or {}).get("out")})
