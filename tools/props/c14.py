"""C14 - every name maps to a valid, distinct Go identifier bound to its JSON key."""
import itertools
import json

from vlib.gal import str_term, bool_term, parse_nlist
from vlib.progs import Batch

PROPS_FILE = "Props/C14.v"

# one representative per class the state machine distinguishes (+ the characters behind the recorded findings)
REP = ["a", "ß", "B", "ǅ", "日", "1", "²", "-", "_"]
# a wider palette for the random family: cased letters with odd case mappings, title case, caseless letters,
# decimal digits of other scripts, other numerals, marks, symbols, separators
PALETTE = list("abzAZ019_-. $+/:") + ["ß", "ǅ", "ǆ", "Ǆ", "İ", "ı", "ſ", "K", "é", "É",
                                    "ω", "Ω", "ᾠ", "ᾨ", "ῳ", "ῼ", "ᾅ", "日", "א", "٣", "३",
                                    "Ⅷ", "²", "½", "́", "‍", "\U0001f600", "ª", "ʰ", "Ⅰ", "Ⓐ", "ⓐ",
                                    "ა", "Ა", "Ꙋ", "ꙋ", "*"]
CAPSETS = [[], ["ID", "URL"], ["HtMl"], ["ID", "IDs"], ["ÉTÉ"]]
WORDS = ["id", "Id", "ID", "iD", "url", "URL", "Url", "html", "HTML", "hTmL", "idx", "ids", "IDs", "x", "été", "ÉTÉ", "7"]
SEPS = ["", "_", "-", " ", ".", "1"]
TAG_SAFE = set("!#$%&()*+-./:;<=>?@[]^_{|}~ ")


def table_term(rows):
    return "[" + "; ".join("mkRow %d %s %s %s %s %s %d %d" % (r["cp"], bool_term(r["lower"]), bool_term(r["upper"]), bool_term(r["number"]),
                                                            bool_term(r["letter"]), bool_term(r["digit"]), r["to_upper"], r["fold"]) for r in rows) + "]"


def unitab(ctx, strings):
    cps = set()
    for s in strings:
        cps.update(ord(c) for c in s)
    cps.update(ord(c) for c in "ABlankWidcrUef")
    todo = sorted(cps)
    rows = {}
    for _ in range(3):            # close under to_upper / fold images
        res = ctx.jsonl("unitab", [{"cps": todo}])[0]
        new = []
        for r in res:
            rows[r["cp"]] = r
        for r in res:
            for k in ("to_upper", "fold"):
                if r[k] not in rows and r[k] not in new:
                    new.append(r[k])
        if not new:
            break
        todo = new
    return [rows[k] for k in sorted(rows)]


def good(rows_by_cp, s):
    """mirror of IdentP.good (only used to decide which e2e observations the oracle applies to)"""
    for ch in s:
        r = rows_by_cp.get(ord(ch))
        if r is None:
            return False
        up = rows_by_cp.get(r["to_upper"])
        if r["lower"] or r["upper"]:
            if not (r["letter"] and up is not None and up["upper"] and up["letter"]):
                return False
        elif r["number"]:
            if not r["digit"]:
                return False
            if r["to_upper"] != r["cp"]:
                return False
        else:
            if r["to_upper"] != r["cp"]:
                return False
    return True


def tag_safe(name):
    if name == "":
        return False
    for ch in name:
        if ch in TAG_SAFE:
            continue
        if ch.isalpha() or ch.isdigit():     # encoding/json.isValidTag: unicode.IsLetter / IsDigit
            continue
        return False
    return True


def direct_cases(ctx):
    cases = []
    maxlen = 4 if ctx.tier == "quick" else 5
    for n in range(0, maxlen + 1):
        for t in itertools.product(REP, repeat=n):
            cases.append((0, "".join(t), "class-sequences"))
    cases.append((0, "*", "class-sequences"))
    for ci in range(1, len(CAPSETS)):
        for a, sep, b in itertools.product(WORDS, SEPS, WORDS + [""]):
            cases.append((ci, a + sep + b, "capitalisation"))
    rng = ctx.rng
    nrand = 1500 if ctx.tier == "quick" else 30000
    for _ in range(nrand):
        n = rng.randint(1, 8)
        cases.append((rng.randrange(len(CAPSETS)), "".join(rng.choice(PALETTE) for _ in range(n)), "random-unicode"))
    return cases


def coq_header(rows):
    caps = "[" + "; ".join("[" + "; ".join(str_term(c) for c in cs) + "]" for cs in CAPSETS) + "]"
    return ("From GJS Require Import Base Ident IdentP RunC14.\n"
            "Definition T : list crow := %s.\nDefinition CS : list (list str) := %s.\n" % (table_term(rows), caps))


def run_direct(ctx):
    cases = direct_cases(ctx)
    strings = [c[1] for c in cases] + [w for cs in CAPSETS for w in cs]
    rows = unitab(ctx, strings)
    req = [{"fn": "identifierize", "caps": CAPSETS[ci], "exts": [], "s": s} for ci, s, _ in cases]
    res = ctx.jsonl("direct", req)
    outs = []
    for i, r in enumerate(res):
        if "panic" in r or "out" not in r:
            ctx.violation("oracle", {"kind": "direct", "args": req[i], "result": r}, "Identifierize panicked on %r" % req[i]["s"])
            outs.append("")
        else:
            outs.append(r["out"])
    # the table must also cover the characters of the outputs
    rows = unitab(ctx, strings + outs)
    isid = ctx.jsonl("direct", [{"fn": "isident", "s": o} for o in outs])
    shards = []
    size = 6000
    for k in range(0, len(cases), size):
        shards.append(list(range(k, min(len(cases), k + size))))
    mism, guard, orc = [], set(), []
    import concurrent.futures as cf

    def one(sh):
        lines = ["mkI %d %d %s %s" % (i, cases[i][0], str_term(cases[i][1]), str_term(outs[i])) for i in sh]
        text = coq_header(rows) + "Definition cases : list icase := [\n  " + ";\n  ".join(lines) + "].\n"
        text += "Definition MM := Eval vm_compute in i_mismatches T CS cases.\n"
        text += "Definition GG := Eval vm_compute in i_guard T cases.\n"
        text += "Definition OO := Eval vm_compute in i_oracle T cases.\n"
        return ctx.coq_lists("c14_direct_%d" % sh[0], text, ["MM", "GG", "OO"], timeout=2400)

    with cf.ThreadPoolExecutor(max_workers=8) as ex:
        for vals in ex.map(one, shards):
            mism += parse_nlist(vals["MM"])
            guard.update(parse_nlist(vals["GG"]))
            orc += parse_nlist(vals["OO"])
    for i, (ci, s, fam) in enumerate(cases):
        ctx.count(req[i], len(s) > 0, "identifierize/" + fam)
    ctx.cov["families"]["identifierize/class-sequences"]["exhaustive"] = True
    ctx.cov["families"]["identifierize/class-sequences"]["alphabet"] = REP
    ctx.cov["disagreements_checked"] += len(cases)
    ctx.cov["in_guard"] = len(guard)
    ctx.sample({"family": "identifierize", "args": req[4321 % len(req)], "impl": outs[4321 % len(req)]})
    nv = 0
    # ground truth for "valid exported identifier": go/token on the implementation's output
    bad = [i for i in sorted(guard) if not (isid[i].get("ident") and isid[i].get("exported"))]
    for i in sorted(set(orc) | set(bad)):
        ctx.violation("oracle", {"kind": "direct", "args": req[i], "impl_result": outs[i], "go_token": isid[i],
                                 "expected": "a valid, exported Go identifier (every character of the name is inside the guard of C14_valid)"},
                      "Identifierize(%r) = %r is not a valid exported Go identifier" % (req[i]["s"], outs[i]))
        nv += 1
        if nv >= 5:
            break
    if mism and nv == 0:
        i = mism[0]
        ctx.violation("tie", {"kind": "direct", "args": req[i], "impl_result": outs[i],
                              "correspondence": "RunC14.i_agrees (Model/Ident.identifierize vs text.Caser.Identifierize); %d cases differ" % len(mism)},
                      "Identifierize(%r) = %r differs from the model (the result is still a valid exported identifier where the guard applies)"
                      % (req[i]["s"], outs[i]), no_input=True)
    ctx.cov["families"]["identifierize/class-sequences"]["mismatches"] = len(mism)
    return rows


def run_files(ctx):
    exts_sets = [[], [".json"], [".yaml", ".json"], ["json"], [".schema.json", ".json"]]
    names = ["foo.json", "a/b/foo-bar.json", "foo.schema.json", "x.yaml", "dir.d/my_file", "/abs/p/Q1.json", "foo.json/", "a.b.c.json", "json",
             ".json", "café.json", "foo.JSON", "a/", "///", "foo..json"]
    cases = [(ci, ex, n) for ci in (0, 1) for ex in exts_sets for n in names]
    req = [{"fn": "identfile", "caps": CAPSETS[ci], "exts": ex, "s": n} for ci, ex, n in cases]
    res = ctx.jsonl("direct", req)
    outs = [r.get("out", "") for r in res]
    rows = unitab(ctx, [n for _, _, n in cases] + outs + [e for ex in exts_sets for e in ex] + [w for cs in CAPSETS for w in cs])
    lines = ["mkF %d %d [%s] %s %s" % (i, ci, "; ".join(str_term(e) for e in ex), str_term(n), str_term(outs[i]))
             for i, (ci, ex, n) in enumerate(cases)]
    text = coq_header(rows) + "Definition cases : list fcase := [\n  " + ";\n  ".join(lines) + "].\n"
    text += "Definition MM := Eval vm_compute in f_mismatches T CS cases.\n"
    vals = ctx.coq_lists("c14_files", text, ["MM"])
    mism = parse_nlist(vals["MM"])
    for i in range(len(cases)):
        ctx.count(req[i], True, "identifier-from-file-name")
    ctx.cov["disagreements_checked"] += len(cases)
    isid = ctx.jsonl("direct", [{"fn": "isident", "s": o} for o in outs])
    for i, r in enumerate(isid):
        if "panic" in res[i]:
            ctx.violation("oracle", {"kind": "direct", "args": req[i], "result": res[i]}, "IdentifierFromFileName panicked")
            break
        if not (r.get("ident") and r.get("exported")):
            ctx.violation("oracle", {"kind": "direct", "args": req[i], "impl_result": outs[i]},
                          "IdentifierFromFileName(%r) = %r is not a valid exported identifier" % (req[i]["s"], outs[i]))
            break
    if mism:
        i = mism[0]
        ctx.violation("tie", {"kind": "direct", "args": req[i], "impl_result": outs[i],
                              "correspondence": "RunC14.f_mismatches (Model/Ident.ident_from_file vs Caser.IdentifierFromFileName)"},
                      "IdentifierFromFileName(%r, exts %r) = %r differs from the model" % (req[i]["s"], req[i]["exts"], outs[i]), no_input=True)


# ------------------------------------------------------------------ sibling names, tags and binding (end to end)
SIB_SETS = [
    ["foo_bar", "fooBar", "foo-bar", "FooBar", "foo bar"],
    ["a", "A", "a_", "_a", "-a"],
    ["id", "ID", "Id", "i_d"],
    ["x1", "x_1", "x-1", "X1"],
    ["name", "Name", "NAME", "na_me", "naMe"],
    ["1", "2", "_1", "a1"],
    ["日", "日本", "A日", "a日"],
    ["type", "Type", "func", "Plain", "AdditionalProperties", "plain", "raw"],
    ["url", "URL", "Url", "u_r_l"],
    ["*", "", "Wildcard", "Blank", "Undefined", "-"],
    ["été", "Été", "ete"],
    ["a.b", "a/b", "a:b", "a+b", "a b"],
    ["rate", "100%", "% done", "a%sb", "%d", "50%%"],          # tag text that would be a printf format
    ["x%vy", "%", "q%5.2f", "%[1]s", "plain"],
]


def run_siblings(ctx, caps_list):
    rng = ctx.rng
    sets = [list(s) for s in SIB_SETS]
    nrand = 20 if ctx.tier == "quick" else 300
    pool = sorted(set(n for s in SIB_SETS for n in s))
    for _ in range(nrand):
        k = rng.randint(2, 7)
        base = rng.sample(pool, k)
        # add programmatic near-collisions of one of them
        b = rng.choice(base)
        if b:
            base += [b.upper(), b.lower(), b + "_", "_" + b, b.replace("_", "-")]
        sets.append(sorted(set(base)))
    b = Batch(ctx, "c14")
    meta = []
    for i, names in enumerate(sets):
        ci = i % len(caps_list)
        caps = caps_list[ci]
        names = sorted(set(names))
        props = {n: {"type": "string"} for n in names}
        schema = {"type": "object", "properties": props}
        doc = {n: "v%d" % k for k, n in enumerate(names)}
        cid = "s%d" % i
        b.add({"id": cid, "cfg": {"capitalizations": caps, "tags": ["json"], "mappings": [{"id": "", "root": "S", "package": cid, "output": cid + "/gen.go"}]},
               "files": {"s.json": json.dumps(schema)}, "argv": ["s.json"], "jobs": [{"t": "S", "doc": json.dumps(doc)}]})
        meta.append((cid, ci, names, doc))
    b.run()
    all_strings = [n for _, _, names, _ in meta for n in names]
    fields_of = {}
    for cid, ci, names, doc in meta:
        case = b.case(cid)
        sc = list(case["scan"].values())
        st = None
        if sc:
            for t in sc[0]["types"]:
                if t["name"] == "S":
                    st = t
        fields_of[cid] = st
        if st:
            all_strings += [f["name"] for f in st.get("fields", [])]
    rows = unitab(ctx, all_strings + [w for cs in caps_list for w in cs])
    by_cp = {r["cp"]: r for r in rows}
    lines = []
    nv = 0
    for k, (cid, ci, names, doc) in enumerate(meta):
        case = b.case(cid)
        ctx.count({"names": names, "caps": caps_list[ci]}, True, "sibling-names")
        ctx.cov["programs"] += 1
        inguard = all(good(by_cp, n) and tag_safe(n) for n in names) and all(good(by_cp, w) for w in caps_list[ci])
        st = fields_of[cid]
        problem = None
        if not case["gen"]["ok"]:
            problem = "generator failed: %s" % (case["gen"].get("err") or case["gen"].get("panic"))
        elif st is None:
            problem = "root struct S not found in the output"
        else:
            fnames = [f["name"] for f in st["fields"]]
            tags = [f["tag"] for f in st["fields"]]
            lines.append("mkSib %d %d [%s] [%s]" % (k, ci, "; ".join(str_term(n) for n in names), "; ".join(str_term(f) for f in fnames)))
            if len(set(fnames)) != len(fnames):
                problem = "duplicate field names %r" % fnames
            elif len(fnames) != len(names):
                problem = "%d fields for %d properties" % (len(fnames), len(names))
            elif inguard:
                for n, tg in zip(names, tags):
                    if tg != 'json:"%s,omitempty"' % n:
                        problem = "tag %r does not carry the property name %r" % (tg, n)
                        break
                if not problem and not case["build_ok"]:
                    problem = "emitted code does not compile: %s" % case["build_err"][:300]
                if not problem:
                    o = case["jobs"][0].get("obs", {})
                    if o.get("v") != "ACC":
                        problem = "document with one string per key rejected: %s" % o.get("err")
                    else:
                        back = json.loads(o["out"])
                        if back != doc:
                            problem = "values do not come back under their own keys: sent %s got %s" % (json.dumps(doc), o["out"])
        if problem and (inguard or "duplicate" in problem or "fields for" in problem or "generator failed" in problem):
            ctx.violation("oracle", {"kind": "siblings", "cfg": case["cfg"], "files": case["files"], "doc": case["jobs"][0]["doc"],
                                     "fields": st and st.get("fields")},
                          "sibling properties %r: %s" % (names, problem))
            nv += 1
            if nv >= 5:
                break
    if lines:
        caps = "[" + "; ".join("[" + "; ".join(str_term(c) for c in cs) + "]" for cs in caps_list) + "]"
        text = ("From GJS Require Import Base Ident IdentP RunC14.\nDefinition T : list crow := %s.\nDefinition CS : list (list str) := %s.\n"
                % (table_term(rows), caps))
        text += "Definition cases : list scase := [\n  " + ";\n  ".join(lines) + "].\n"
        text += "Definition MM := Eval vm_compute in s_mismatches T CS cases.\n"
        vals = ctx.coq_lists("c14_sib", text, ["MM"])
        mism = parse_nlist(vals["MM"])
        ctx.cov["disagreements_checked"] += len(lines)
        ctx.cov["families"]["sibling-names"]["mismatches"] = len(mism)
        if mism and nv == 0:
            cid, ci, names, doc = meta[mism[0]]
            ctx.violation("tie", {"kind": "siblings", "cfg": b.case(cid)["cfg"], "files": b.case(cid)["files"], "fields": fields_of[cid],
                                  "correspondence": "RunC14.s_mismatches (Model/Ident.field_names vs addStructField)"},
                          "field names for sibling properties %r differ from the model" % names, no_input=True)
    ctx.sample({"family": "sibling-names", "names": meta[0][2], "fields": fields_of[meta[0][0]] and [f["name"] for f in fields_of[meta[0][0]]["fields"]]})


# ------------------------------------------------------------------ colliding definition names -> distinct type names
def collision_schemas(ctx):
    """definitions whose names collide after normalisation, each a distinct object schema, with every set of references
    between them (quick: at most two references; thorough: every subset when there are three definitions)"""
    groups = [["LineItem", "lineItem", "line_item"], ["a", "A"], ["Foo", "foo", "FOO", "f_oo"], ["x1", "x_1", "X1"], ["T", "t", "T_1"]]
    out = []
    for g in groups:
        edges = [(i, j) for i in range(len(g)) for j in range(len(g)) if i != j]
        maxk = 2 if (ctx.tier == "quick" or len(g) > 3) else len(edges)
        subsets = [es for n in range(0, maxk + 1) for es in itertools.combinations(edges, n)]
        for variant, es in enumerate(subsets):
            defs = {}
            for j, n in enumerate(g):
                props = {"p%d" % j: {"type": "string"}, "n": {"type": "integer", "minimum": j}}
                for (a, c) in es:
                    if a == j:
                        props["to%d" % c] = {"$ref": "#/$defs/" + g[c]}
                defs[n] = {"type": "object", "properties": props, "required": ["p%d" % j]}
            schema = {"type": "object", "$defs": defs, "properties": {("r%d" % j): {"$ref": "#/$defs/" + n} for j, n in enumerate(g)}}
            out.append((g, variant, schema))
    # definitions with colliding names that differ ONLY in annotations (defaults at two depths, title, description): still distinct schema types
    for g in groups:
        for ki, kind in enumerate(("default", "nested-default", "title", "description", "item-default")):
            defs = {}
            for j, n in enumerate(g):
                d = {"type": "object", "properties": {"attempts": {"type": "integer"}, "jitter": {"type": "boolean"}, "l": {"type": "array", "items": {"type": "string"}}}}
                if kind == "nested-default":
                    d["properties"]["inner"] = {"type": "object", "properties": {"w": {"type": "string"}}}
                if kind == "default":
                    d["properties"]["attempts"]["default"] = 3 + j
                    d["properties"]["jitter"]["default"] = (j % 2 == 0)
                elif kind == "nested-default":
                    d["properties"]["inner"]["properties"]["w"]["default"] = "w%d" % j
                elif kind == "title":
                    d["title"] = "Policy number %d" % j
                elif kind == "description":
                    d["properties"]["attempts"]["description"] = "attempts, flavour %d" % j
                else:
                    d["properties"]["l"]["default"] = ["v%d" % j]
                defs[n] = d
            schema = {"type": "object", "$defs": defs, "properties": {("r%d" % j): {"$ref": "#/$defs/" + n} for j, n in enumerate(g)}}
            out.append((g, 1000 + ki, schema))
    return out


def run_types(ctx):
    b = Batch(ctx, "c14t")
    meta = []
    groups = sorted(set(tuple(x[0]) for x in collision_schemas(ctx)))
    for k, (g, variant, schema) in enumerate(collision_schemas(ctx)):
        cid = "t%d" % k
        b.add({"id": cid, "cfg": {"tags": ["json"], "mappings": [{"id": "", "root": "Root", "package": cid, "output": cid + "/gen.go"}]},
               "files": {"s.json": json.dumps(schema)}, "argv": ["s.json"], "jobs": []})
        meta.append((cid, g, variant, schema))
    b.run()
    idents = {}
    allnames = sorted(set(n for g in groups for n in g))
    for n, r in zip(allnames, ctx.jsonl("direct", [{"fn": "identifierize", "caps": [], "exts": [], "s": n} for n in allnames])):
        idents[n] = r.get("out", n)
    for cid, g, variant, schema in meta:
        case = b.case(cid)
        ctx.count(schema, True, "colliding-definition-names")
        ctx.cov["programs"] += 1
        known_class = inprogress_collision(schema["$defs"], idents)
        problem = None
        key = None
        if not case["gen"]["ok"]:
            problem = "generator failed: %s" % (case["gen"].get("err") or case["gen"].get("panic"))
        else:
            sc = list(case["scan"].values())[0]
            tn = [t["name"] for t in sc["types"]]
            structs = [t for t in sc["types"] if t["kind"] == "struct" and t["name"] != "Root"]
            if len(set(tn)) != len(tn):
                problem = "duplicate type names %r" % sorted(tn)
                if known_class:
                    key = "C14-dup-type-name-in-progress"
            elif len(structs) != len(g) * (2 if variant == 1001 else 1):         # (variant 1001: every definition has a nested object of its own)
                problem = "%d struct types for %d distinct definitions (%r)" % (len(structs), len(g), sorted(tn))
            elif not case["build_ok"]:
                problem = "emitted code does not compile: %s" % case["build_err"][:300]
        if problem:
            before = len(ctx.violations)
            ctx.violation("oracle", {"kind": "types", "cfg": case["cfg"], "files": case["files"]},
                          "definitions %r (variant %d): %s" % (g, variant, problem), finding_key=key)
            if len(ctx.violations) > before:
                break


def inprogress_collision(defs, idents):
    """True iff, in the generator's visiting order (definitions sorted, references followed depth first in sorted
    property order), some definition asks for a type name that a declaration still in progress holds: the class of
    the recorded finding C14-dup-type-name-in-progress (uniqueTypeName hands an in-progress name out again)."""
    complete, inprog, done, stack = set(), [], set(), []
    hit = [False]

    def refs(d):
        out = []
        for k in sorted(defs[d].get("properties", {})):
            r = defs[d]["properties"][k].get("$ref")
            if r:
                out.append(r.split("/")[-1])
        return out

    def gen(d):
        if d in done or d in stack:
            return
        n = idents[d]
        if n in complete:
            k = 1
            while "%s_%d" % (n, k) in complete or "%s_%d" % (n, k) in inprog:
                k += 1
            n = "%s_%d" % (n, k)
        elif n in inprog:
            hit[0] = True
        stack.append(d)
        inprog.append(n)
        for t in refs(d):
            if t in defs:
                gen(t)
        stack.pop()
        inprog.remove(n)
        complete.add(n)
        done.add(d)

    for d in sorted(defs):
        gen(d)
    return hit[0]


def run_equal_collisions(ctx):
    """definitions whose names collide and some of which are structurally equal copies: every JSON key still binds to a field
    of ITS definition's type (a re-used declaration must be the one that is equal, not merely same-named)"""
    from vlib.valuecheck import build_cases, evaluate
    from vlib.kitchen import run_cases
    shapes = {"S": {"type": "object", "properties": {"v": {"type": "string", "minLength": 1}}, "required": ["v"]},
              "I": {"type": "object", "properties": {"v": {"type": "integer", "minimum": 0}}, "required": ["v"]},
              "B": {"type": "object", "properties": {"v": {"type": "boolean"}, "w": {"type": "string"}}, "required": ["v"]}}
    schemas = []
    for names in (["MyThing", "myThing", "my_thing"], ["a_b", "aB", "AB", "a-b"], ["T1", "t1", "T_1"]):
        for pat in itertools.product("SIB", repeat=len(names)):
            if len(set(pat)) == len(pat) or len(set(pat)) == 1:
                continue                      # at least two equal and at least two different definitions
            defs = {n: json.loads(json.dumps(shapes[p])) for n, p in zip(names, pat)}
            root = {"type": "object", "$defs": defs, "properties": {"p%d" % i: {"$ref": "#/$defs/" + n} for i, n in enumerate(names)}}
            schemas.append(root)
    if ctx.tier == "quick":
        schemas = schemas[::2]
    # inline types whose derived names meet the names the generator derives itself (array items: <X>Elem, map values: <X>Value, anyOf branches: <X>_0, <X>_1 ...)
    o = lambda k, t, **kw: dict({"type": "object", "properties": {k: dict({"type": t}, **kw)}, "required": [k]})      # noqa: E731
    derived = [
        {"type": "object", "properties": {"shape": {"type": "array", "items": {"anyOf": [o("radius", "number"), o("side", "number")]}}, "shapeElem": o("label", "string")}},
        {"type": "object", "properties": {"list": {"type": "array", "items": o("a", "string", minLength=1)}, "listElem": o("b", "integer", minimum=1), "list_elem": o("c", "boolean")}},
        # (an inline object as a map value is an anonymous struct - finding C04-anonymous-struct-map-value - so the named map value here is an enum)
        {"type": "object", "properties": {"m": {"type": "object", "additionalProperties": {"type": "string", "enum": ["a", "b"]}}, "mValue": o("d", "integer")}},
        {"type": "object", "properties": {"u": {"anyOf": [o("p", "string"), o("q", "integer")]}, "w": {"type": "array", "items": {"anyOf": [o("p", "string"), o("q", "integer")]}},
                                          "wElem": o("z", "string"), "u2": o("y", "number")}},
        {"type": "object", "properties": {"grid": {"type": "array", "items": {"type": "array", "items": o("cell", "integer")}}, "gridElem": o("x", "string"), "gridElemElem": o("y", "string")}},
    ]
    schemas = schemas + derived
    cases = build_cases(ctx, len(schemas), None, {"valid", "type", "bound", "string", "required"}, "c14e", extra_schemas=schemas, docs_per=2, max_docs=60,
                        fam="equal-collisions")
    run_cases(ctx, cases, "c14e")
    evaluate(ctx, cases, {"valid", "type", "bound", "string", "required"}, {"valid": "valid"}, "colliding definitions with equal copies")


# ------------------------------------------------------------------ root type names across files (titles, root-type mappings)
def run_root_names(ctx):
    """a schema that refers to another file as a whole: each file's root is a distinct schema type and gets its own name - from its own
    title under --struct-name-from-title, from its own --schema-root-type mapping, else from its own file name - whatever the referrer
    is called; the emitted package builds and a document binds every key to the field of its own level"""
    def addr(typed, titled):
        a = {"$id": "https://example.com/address", "required": ["street"], "properties": {"street": {"type": "string"}, "zip": {"type": "integer"}}}
        if typed:
            a["type"] = "object"
        if titled:
            a["title"] = "Postal Address"
        return a
    b = Batch(ctx, "c14roots")
    meta = []
    n = 0
    for typed in (False, True):
        for titled in (True, False):
            for where in ("property", "items", "both"):
                props = {"name": {"type": "string"}}
                if where in ("property", "both"):
                    props["address"] = {"$ref": "address.json"}
                if where in ("items", "both"):
                    props["others"] = {"type": "array", "items": {"$ref": "address.json"}}
                parent = {"$id": "https://example.com/parent", "title": "Parent Doc", "type": "object", "required": ["name"], "properties": props}
                for vn, cfg_extra, maps, want_parent, want_addr in (
                        ("title", {"struct_name_from_title": True}, [], "ParentDoc", "PostalAddress" if titled else "AddressJson"),
                        ("plain", {}, [], "ParentJson", "AddressJson"),
                        ("root-type-of-the-referrer", {}, [{"id": "https://example.com/parent", "root": "TheParent"}], "TheParent", "AddressJson"),
                        ("root-type-of-both", {}, [{"id": "https://example.com/parent", "root": "TheParent"}, {"id": "https://example.com/address", "root": "TheAddress"}], "TheParent", "TheAddress")):
                    cid = "c14r%d" % n
                    n += 1
                    cfg = dict({"tags": ["json", "yaml", "mapstructure"]}, **cfg_extra)
                    cfg["mappings"] = [dict(m, package=cid, output=cid + "/gen.go") for m in maps]
                    doc = {"name": "N"}
                    if "address" in props:
                        doc["address"] = {"street": "S", "zip": 7}
                    if "others" in props:
                        doc["others"] = [{"street": "T", "zip": 8}]
                    bad = json.loads(json.dumps(doc))
                    if "address" in bad:
                        del bad["address"]["street"]
                    else:
                        del bad["others"][0]["street"]
                    c = b.add({"id": cid, "cfg": cfg, "files": {"parent.json": json.dumps(parent), "address.json": json.dumps(addr(typed, titled))}, "argv": ["parent.json"],
                               "jobs": [{"t": want_parent, "doc": json.dumps(doc), "wire": "json", "prior": ""}, {"t": want_parent, "doc": json.dumps(bad), "wire": "json", "prior": ""}]})
                    meta.append((c, vn, typed, titled, where, want_parent, want_addr, doc))
    b.run()
    nv = 0
    for c, vn, typed, titled, where, want_parent, want_addr, doc in meta:
        ctx.count({"variant": vn, "typed": typed, "titled": titled, "where": where}, True, "root-type-names/whole-file-reference")
        r = {"kind": "batch", "cfg": c["cfg"], "files": c["files"], "argv": c["argv"], "variant": vn}
        if not c["gen"].get("ok"):
            continue                 # a refusal is judged by C18 / C10
        ctx.cov["programs"] += 1
        names = [t["name"] for sc in (c.get("scan") or {}).values() for t in sc.get("types", [])]
        msg = None
        if len(names) != len(set(names)):
            msg = "two schema types share a Go type name: %s" % sorted(names)
        elif want_parent not in names or want_addr not in names:
            msg = "the roots of the two files should be named %s and %s; declared types: %s" % (want_parent, want_addr, sorted(names))
        elif not c["build_ok"]:
            msg = "the emitted package does not build: %s" % c["build_err"][:300]
        else:
            good, badj = c["jobs"][0].get("obs") or {}, c["jobs"][1].get("obs") or {}
            if good.get("v") != "ACC" or not json_eq_loose(good.get("out"), doc):
                msg = "document %s: %s %s" % (json.dumps(doc), good.get("v"), (good.get("err") or good.get("out") or "")[:200])
            elif badj.get("v") != "REJ":
                msg = "a document without the referenced file's required key: %s" % badj.get("v")
        if msg and nv < 4:
            ctx.violation("oracle", r, "whole-file reference (%s, referenced root %s, %s): %s" % (vn, "typed" if typed else "without type", where, msg))
            nv += 1


def json_eq_loose(out, doc):
    try:
        o = json.loads(out)
    except Exception:
        return False

    def sub(a, b):          # every key of the document comes back with its value (other keys may be added as zero values)
        if isinstance(b, dict):
            return isinstance(a, dict) and all(k in a and sub(a[k], v) for k, v in b.items())
        if isinstance(b, list):
            return isinstance(a, list) and len(a) == len(b) and all(sub(x, y) for x, y in zip(a, b))
        return a == b
    return sub(o, doc)


def run(ctx):
    ctx.proof_step(PROPS_FILE)
    run_equal_collisions(ctx)
    run_root_names(ctx)
    run_direct(ctx)
    run_files(ctx)
    run_siblings(ctx, [[], ["ID", "URL"], ["HtMl"]])
    run_types(ctx)
    replay_findings(ctx)
    ctx.cov["rule"] = ("identifierize/class-sequences: every string of length <= 4 (quick) / 5 (thorough) over one representative per character class "
                       "(lower, lower with non-upper image, upper, title case, caseless letter, decimal digit, other numeral, two separators), exhaustive; "
                       "capitalisation: word x separator x word under 4 capitalisation lists; random-unicode: random strings over a 50-character palette; "
                       "identifier-from-file-name: 15 paths x 5 extension lists; sibling-names / colliding-definition-names: generated programs; "
                       "non-trivial = non-empty name; distinct by hash of (capitalisations, name)")
    ctx.cov["exhaustive"] = True


def replay_findings(ctx):
    for f in ctx.findings():
        w = f.get("witness", {})
        if w.get("kind") == "types":
            b = Batch(ctx, "c14kf")
            b.add({"id": "k0", "cfg": {"tags": ["json"]}, "files": w["files"], "argv": ["s.json"], "jobs": []})
            b.run()
            c = b.case("k0")
            tn = [t["name"] for sc in c["scan"].values() for t in sc["types"]]
            ctx.known(f, c["gen"]["ok"] and len(set(tn)) != len(tn), "type names %r" % sorted(tn))
        if w.get("kind") == "direct":
            r = ctx.jsonl("direct", [w["args"]])[0]
            t = ctx.jsonl("direct", [{"fn": "isident", "s": r.get("out", "")}])[0]
            fails = not (t.get("ident") and t.get("exported"))
            ctx.known(f, fails, "got %s %s" % (r, t))


def replay(ctx, path):
    obj = json.load(open(path))
    case = obj.get("case", obj.get("witness", {}))
    if case.get("kind") == "direct":
        r = ctx.jsonl("direct", [case["args"]])[0]
        print("implementation returns:", json.dumps(r), "recorded:", json.dumps(case.get("impl_result")))
    else:
        b = Batch(ctx, "c14rp")
        b.add({"id": "r0", "cfg": case["cfg"], "files": case["files"], "argv": ["s.json"], "jobs": [{"t": "S", "doc": case.get("doc", "{}")}]})
        b.run()
        c = b.case("r0")
        print(json.dumps({"gen_ok": c["gen"]["ok"], "build_ok": c["build_ok"], "build_err": c["build_err"], "scan": c["scan"],
                          "obs": [j.get("obs") for j in c["jobs"]]}, indent=1)[:4000])
