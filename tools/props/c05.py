"""C05 - numeric bounds and multipleOf are enforced exactly as stated."""
import itertools
import json
from fractions import Fraction as F

from vlib.core import q_str, rat_str, opt, bool_term, parse_nlist
import re

PROPS_FILE = "Props/C05.v"


def ex_term(e):
    if e is None:
        return "None"
    if isinstance(e, bool):
        return "(Some (ExBool %s))" % bool_term(e)
    return "(Some (ExNum %s))" % q_str(e)


def bounds_term(c):
    return "(mkBounds %s %s %s %s)" % (opt(c["min"], q_str), opt(c["max"], q_str), ex_term(c["exmin"]), ex_term(c["exmax"]))


def ex_json(e):
    return e if (e is None or isinstance(e, bool)) else rat_str(e)


def direct_cases(ctx):
    """All order types (ties included) of up to four stated constants x presence x both
    exclusive forms, over two palettes (small integers; negative, fractional, large)."""
    cases = []
    pals = [[F(0), F(1), F(2), F(3)], [F(-5, 2), F(-1), F(1, 2), F(2) ** 31]]
    for pal in pals:
        mins = [None] + pal
        exs = [None, True, False] + pal
        for mn, mx, emn, emx in itertools.product(mins, mins, exs, exs):
            cases.append({"min": mn, "max": mx, "exmin": emn, "exmax": emx})
    return cases


def run_direct(ctx):
    cases = direct_cases(ctx)
    req = [{"fn": "normalize", "min": None if c["min"] is None else rat_str(c["min"]),
            "max": None if c["max"] is None else rat_str(c["max"]),
            "exmin": ex_json(c["exmin"]), "exmax": ex_json(c["exmax"])} for c in cases]
    res = ctx.jsonl("direct", req)
    lines = []
    bad_harness = []
    for i, (c, r) in enumerate(zip(cases, res)):
        if "panic" in r or "harness_error" in r:
            bad_harness.append((i, r))
            continue
        rmin = None if r["min"] is None else F(r["min"])
        rmax = None if r["max"] is None else F(r["max"])
        lines.append("mkN %d %s %s %s %s %s" % (i, bounds_term(c), opt(rmin, q_str), opt(rmax, q_str),
                                                 bool_term(r["exmin"]), bool_term(r["exmax"])))
        nontrivial = sum(x is not None for x in (c["min"], c["max"], c["exmin"], c["exmax"])) >= 2
        ctx.count(req[i], nontrivial, "normalize-direct")
        if not r.get("args_intact", True):
            ctx.violation("oracle", {"fn": "normalize", "args": req[i], "result": r},
                          "NormalizeBounds wrote through its argument pointers")
    for i, r in bad_harness:
        ctx.violation("oracle", {"fn": "normalize", "args": req[i], "result": r}, "NormalizeBounds panicked: %s" % r)
    text = "From GJS Require Import Base Bounds RunC05.\nDefinition cases : list ncase := [\n  " + ";\n  ".join(lines) + "].\n"
    text += "Definition MM := Eval vm_compute in n_mismatches cases.\n"
    text += "Definition OO := Eval vm_compute in map (fun p => [Z.of_N (fst p); Qnum (snd p); Z.pos (Qden (snd p))]) (n_oracle cases).\n"
    vals = ctx.coq_lists("c05_direct", text, ["MM", "OO"])
    mism = parse_nlist(vals["MM"])
    orc = [[int(x) for x in re.findall(r"-?\d+", g)] for g in re.findall(r"\[([^\[\]]+)\]", vals["OO"])]
    ctx.cov["families"]["normalize-direct"]["exhaustive"] = True
    ctx.cov["families"]["normalize-direct"]["mismatches"] = len(mism)
    ctx.cov["disagreements_checked"] += len(cases)
    ctx.sample({"family": "normalize-direct", "args": req[777], "impl": res[777]})
    orc_idx = {}
    for g in orc:
        orc_idx[g[0]] = F(g[1], g[2])
    # oracle: the property fails on the implementation's own result
    for i, x in sorted(orc_idx.items())[:5]:
        ctx.violation("oracle", {"kind": "direct", "fn": "normalize", "args": req[i], "impl_result": res[i], "value": rat_str(x),
                                 "expected": "value accepted iff it satisfies every stated bound (Bounds.spec_bounds)"},
                      "NormalizeBounds result admits/rejects %s contrary to the stated bounds" % rat_str(x))
    # tie: implementation differs from the model but the property still holds on all probes
    for i in mism:
        if i in orc_idx:
            continue
        ctx.violation("tie", {"kind": "direct", "fn": "normalize", "args": req[i], "impl_result": res[i],
                              "correspondence": "RunC05.n_agrees (Model/Bounds.normalize_bounds vs mathutils.NormalizeBounds)"},
                      "NormalizeBounds differs from the model on %s (no probe value violates the bounds)" % json.dumps(req[i]),
                      no_input=True)
        break
    return cases


def replay_findings(ctx):
    for f in ctx.findings():
        w = f.get("witness", {})
        if w.get("kind") == "direct":
            r = ctx.jsonl("direct", [w["args"]])[0]
            fails = any(r.get(k) != v for k, v in w["expected"].items())
            ctx.known(f, fails, "got %s" % r)


def e2e_systematic(ctx):
    """every presence combination of the four bound keywords (exclusive bounds in both forms) x multipleOf x integer/number x
    position; constants chosen so that ties, nested and disjoint-by-one intervals occur; plus fractional bounds on integers in
    the quadrant where int64() truncation is exact"""
    out = []
    k = 0
    positions = ("required", "optional", "nullable", "definition", "item-ref")
    for integer in (True, False):
        u = 1 if integer else 0.5
        forms_lo = [None, {"minimum": 2 * u}, {"exclusiveMinimum": 2 * u}, {"minimum": 2 * u, "exclusiveMinimum": True}, {"minimum": 2 * u, "exclusiveMinimum": False},
                    {"minimum": 2 * u, "exclusiveMinimum": 2 * u}, {"minimum": 2 * u, "exclusiveMinimum": 1 * u}, {"minimum": 1 * u, "exclusiveMinimum": 3 * u},
                    {"exclusiveMinimum": True}]
        forms_hi = [None, {"maximum": 8 * u}, {"exclusiveMaximum": 8 * u}, {"maximum": 8 * u, "exclusiveMaximum": True}, {"maximum": 8 * u, "exclusiveMaximum": False},
                    {"maximum": 8 * u, "exclusiveMaximum": 8 * u}, {"maximum": 8 * u, "exclusiveMaximum": 9 * u}, {"maximum": 9 * u, "exclusiveMaximum": 7 * u}]
        mults = [None, 2 * u, 3 * u] if integer else [None, 0.5, 1.5]
        for lo in forms_lo:
            for hi in forms_hi:
                for m in mults:
                    if lo is None and hi is None and m is None:
                        continue
                    if lo == {"exclusiveMinimum": True} and hi is None and m is None:
                        continue          # a boolean exclusive bound alone emits an empty validator: "fmt imported and not used" (finding C01-bool-exclusive-alone)
                    k += 1
                    if ctx.tier == "quick" and k % 3 != 1:
                        continue
                    s = {"type": "integer" if integer else "number"}
                    s.update(lo or {})
                    s.update(hi or {})
                    if m is not None:
                        s["multipleOf"] = int(m) if integer else m
                    for kk in list(s):
                        if integer and isinstance(s[kk], float):
                            s[kk] = int(s[kk])
                    out.append((s, positions[k % len(positions)]))
    # fractional bounds on integers where truncation toward zero agrees with the mathematical bound
    for s in FRACTIONAL:
        for pos in positions[:3]:
            out.append((dict(s, type="integer"), pos))
    return wrap_positions(out)


FRACTIONAL = [{"minimum": -2.5}, {"exclusiveMinimum": 2.5}, {"maximum": 7.5}, {"exclusiveMaximum": -2.5},
              {"exclusiveMinimum": 2.5, "maximum": 7.5}, {"minimum": -7.5, "exclusiveMaximum": -2.5}, {"exclusiveMinimum": 0.5, "multipleOf": 2},
              {"minimum": 2.5, "exclusiveMinimum": True}, {"maximum": -2.5, "exclusiveMaximum": True},
              {"minimum": 2.5, "exclusiveMinimum": True, "maximum": 9.5}, {"minimum": -9.5, "maximum": -2.5, "exclusiveMaximum": True}]


# bounds at zero and at the limits of the sized kinds (where --min-sized-ints drops or keeps checks)
EDGE = [{"exclusiveMinimum": 0}, {"minimum": 0, "exclusiveMinimum": True}, {"minimum": -5, "exclusiveMinimum": 0}, {"minimum": 0}, {"minimum": 0, "maximum": 255},
        {"exclusiveMinimum": 0, "maximum": 255}, {"exclusiveMinimum": -1, "exclusiveMaximum": 256}, {"minimum": -128, "exclusiveMaximum": 128}, {"minimum": -128, "maximum": 127},
        {"exclusiveMinimum": -129, "maximum": 100}, {"minimum": 1, "maximum": 65535, "multipleOf": 5}, {"exclusiveMaximum": 0}, {"maximum": 0, "exclusiveMaximum": True},
        {"minimum": 0, "exclusiveMinimum": True, "maximum": 100, "exclusiveMaximum": True}, {"minimum": -10, "exclusiveMinimum": True, "maximum": 10}]


# multipleOf at its own boundary constants (1 is a real constraint for number, a vacuous one for integer), alone and next to bounds
MULT = [{"type": "number", "multipleOf": 1}, {"type": "number", "multipleOf": 1, "minimum": 0}, {"type": "number", "multipleOf": 1, "maximum": 10, "exclusiveMinimum": -10},
        {"type": "number", "multipleOf": 2}, {"type": "number", "multipleOf": 0.25}, {"type": "number", "multipleOf": 10}, {"type": "integer", "multipleOf": 1},
        {"type": "integer", "multipleOf": 10}, {"type": "integer", "multipleOf": 1, "maximum": 5}, {"type": "integer", "multipleOf": 1, "minimum": 1}]


def e2e_edges():
    from vlib.valuecheck import collide_root
    coll = []
    for a, b in (({"minimum": 1, "maximum": 5}, {"minimum": 3, "maximum": 9}), ({"exclusiveMinimum": 0}, {"exclusiveMaximum": 0}), ({"multipleOf": 2}, {"multipleOf": 3})):
        coll.append(collide_root(dict(a, type="integer"), dict(b, type="integer"), key="n"))
        coll.append(collide_root(dict(b, type="number"), dict(a, type="number"), key="n", required=True))
    return coll + (wrap_positions([(dict(s, type="integer"), pos) for s in EDGE for pos in ("required", "optional", "nullable")])
            + wrap_positions([(dict(s), pos) for s in MULT for pos in ("required", "optional", "nullable")]))


def both_blocks_cases():
    """a root that carries `$defs` AND the legacy `definitions`, with the same names and different bounds: a reference into `$defs` gets the bounds
    stated there (the legacy block is read only when `$defs` is absent), at a property, an item and a map value"""
    from vlib.kitchen import Case
    out = []
    for i, (new, old, vals) in enumerate((({"type": "integer", "minimum": 1, "maximum": 10}, {"type": "integer", "minimum": 1, "maximum": 5}, [(1, True), (6, True), (10, True), (11, False), (0, False)]),
                                           ({"type": "number", "exclusiveMinimum": 0}, {"type": "number", "minimum": 0}, [(0.5, True), (0, False), (-1, False)]),
                                           ({"type": "integer", "multipleOf": 2}, {"type": "integer", "multipleOf": 3, "maximum": 4}, [(2, True), (8, True), (3, False)]))):
        root = {"type": "object", "$defs": {"Level": new, "Other": {"type": "string"}}, "definitions": {"Level": old, "OnlyLegacy": {"type": "boolean"}},
                "properties": {"level": {"$ref": "#/$defs/Level"}, "levels": {"type": "array", "items": {"$ref": "#/$defs/Level"}},
                               "by": {"type": "object", "additionalProperties": {"$ref": "#/$defs/Level"}}, "o": {"$ref": "#/$defs/Other"}}}
        docs = []
        for v, ok in vals:
            e = "ACC" if ok else "REJ"
            docs.append({"doc": {"level": v}, "cls": "number-valid" if ok else "bound", "path": ("level",), "expect": e})
            docs.append({"doc": {"levels": [vals[0][0], v]}, "cls": "number-valid" if ok else "bound", "path": ("levels", 1), "expect": e})
            docs.append({"doc": {"by": {"k": v}}, "cls": "number-valid" if ok else "bound", "path": ("by", "k"), "expect": e})
        out.append(Case("c05bb%d" % i, root, docs, fam="both-definition-blocks", no_model=True))
    return out


def e2e_fractional():
    return wrap_positions([(dict(s, type="integer"), pos) for s in FRACTIONAL for pos in ("required", "optional", "nullable")])


def wrap_positions(out):
    roots = []
    for s, pos in out:
        if pos in ("definition", "item-ref") and s["type"] == "number" and "multipleOf" in s:
            pos = "optional"          # multipleOf on a named float definition does not compile (D31, recorded under C01)
        root = {"type": "object", "properties": {"other": {"type": "string"}}}
        if pos == "required":
            root["properties"]["n"] = s
            root["required"] = ["n"]
        elif pos == "optional":
            root["properties"]["n"] = s
        elif pos == "nullable":
            root["properties"]["n"] = dict(s, type=[s["type"], "null"])
        elif pos == "definition":
            root["$defs"] = {"Num": s}
            root["properties"]["n"] = {"$ref": "#/$defs/Num"}
        else:
            root["$defs"] = {"Num": s}
            root["properties"]["n"] = {"type": "array", "items": {"$ref": "#/$defs/Num"}}
        roots.append(root)
    return roots


def run_e2e(ctx):
    from vlib.valuecheck import build_cases, evaluate
    from vlib.kitchen import run_cases
    classes = {"bound", "number-valid", "optional-absent", "null-allowed", "valid"}
    from vlib.pairwise import pairwise, sized_enum
    sysm = e2e_systematic(ctx) + e2e_edges() + [r for _, r in pairwise(types=["integer", "number"])]
    n = 20 if ctx.tier == "quick" else 300
    cases = build_cases(ctx, len(sysm) + n, ["integer", "number"], classes | {"type"}, "c05x", extra_schemas=sysm, docs_per=2,
                        gen_kwargs={"allow_formats": False, "allow_enums": False})
    # the integer half again under --min-sized-ints: the property quantifies over every option combination
    ints = e2e_edges() + [r for r in sysm + e2e_fractional() if '"integer"' in json.dumps(r) and not sized_enum(r)][::2]
    ms = build_cases(ctx, len(ints), ["integer"], classes | {"type"}, "c05m", extra_schemas=ints, docs_per=2, minsized=True,
                     gen_kwargs={"allow_formats": False, "allow_enums": False})
    for c in ms:
        c.fam = "min-sized/" + c.fam
    cases = cases + ms
    from vlib.overlay import overlay_cases
    cases = cases + overlay_cases("bound", "c05")
    from vlib.overlay import sibling_group_cases
    from vlib.valuecheck import expect_cases
    from vlib.lookalike import lookalike_cases
    sg = sibling_group_cases("bound", "c05") + both_blocks_cases() + lookalike_cases("c05", "bound")
    run_cases(ctx, cases + sg, "c05e")
    expect_cases(ctx, sg, "numeric bounds")
    evaluate(ctx, cases, classes, {"bound": "invalid", "number-valid": "valid", "optional-absent": "by-spec", "null-allowed": "valid", "valid": "valid"},
             "numeric bounds")
    c = cases[11]
    ctx.sample({"family": "e2e/" + c.fam, "schema": c.schema, "doc": c.docs[1]["doc"], "class": c.docs[1]["cls"], "impl": (c.docs[1].get("obs") or {}).get("v")})


def run(ctx):
    ok = ctx.proof_step(PROPS_FILE)
    run_direct(ctx)
    run_e2e(ctx)
    from vlib import regress
    regress.search(ctx, {"C05"})          # the shape-agnostic search step (DESIGN.md 12.8)
    replay_findings(ctx)
    from vlib.valuecheck import replay_findings as rf
    rf(ctx)
    ctx.cov["rule"] = ("e2e: generated programs for every presence combination of minimum/maximum/exclusive bounds (boolean and numeric form, ties, tighter "
                       "and looser exclusives) x multipleOf x integer/number x 5 positions (every third one in the quick tier), fractional integer bounds in the exact "
                       "quadrant, random numeric-focused schemas; documents: the values on, next to and between the bounds, absent, null; "
                       "normalize-direct: every (minimum, maximum, exclusiveMinimum, exclusiveMaximum) tuple with each constant "
                       "absent or drawn from a 4-value palette (all order types incl. ties), exclusive bounds also true/false; "
                       "non-trivial = at least two keywords present; distinct by hash of the argument tuple")
    ctx.cov["exhaustive"] = True


def replay(ctx, path):
    obj = json.load(open(path))
    case = obj.get("case", obj.get("witness", {}))
    if case.get("kind") == "kitchen":
        from vlib.valuecheck import replay as rp
        return rp(ctx, path)
    if case.get("kind") == "direct":
        r = ctx.jsonl("direct", [case["args"]])[0]
        print("implementation returns:", json.dumps(r))
        print("recorded:", json.dumps(case.get("impl_result")))
