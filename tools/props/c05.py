"""C05 - numeric bounds and multipleOf are enforced exactly as stated."""
import itertools
import json
from fractions import Fraction as F

from vlib.core import q_str, rat_str, opt, bool_term, parse_nlist
import re

PROPS_FILE = "Props/C05.v"


def ex_term(e):
    if e is None:
        return "None"
    if isinstance(e, bool):
        return "(Some (ExBool %s))" % bool_term(e)
    return "(Some (ExNum %s))" % q_str(e)


def bounds_term(c):
    return "(mkBounds %s %s %s %s)" % (opt(c["min"], q_str), opt(c["max"], q_str), ex_term(c["exmin"]), ex_term(c["exmax"]))


def ex_json(e):
    return e if (e is None or isinstance(e, bool)) else rat_str(e)


def direct_cases(ctx):
    """All order types (ties included) of up to four stated constants x presence x both
    exclusive forms, over two palettes (small integers; negative, fractional, large)."""
    cases = []
    pals = [[F(0), F(1), F(2), F(3)], [F(-5, 2), F(-1), F(1, 2), F(2) ** 31]]
    for pal in pals:
        mins = [None] + pal
        exs = [None, True, False] + pal
        for mn, mx, emn, emx in itertools.product(mins, mins, exs, exs):
            cases.append({"min": mn, "max": mx, "exmin": emn, "exmax": emx})
    return cases


def run_direct(ctx):
    cases = direct_cases(ctx)
    req = [{"fn": "normalize", "min": None if c["min"] is None else rat_str(c["min"]),
            "max": None if c["max"] is None else rat_str(c["max"]),
            "exmin": ex_json(c["exmin"]), "exmax": ex_json(c["exmax"])} for c in cases]
    res = ctx.jsonl("direct", req)
    lines = []
    bad_harness = []
    for i, (c, r) in enumerate(zip(cases, res)):
        if "panic" in r or "harness_error" in r:
            bad_harness.append((i, r))
            continue
        rmin = None if r["min"] is None else F(r["min"])
        rmax = None if r["max"] is None else F(r["max"])
        lines.append("mkN %d %s %s %s %s %s" % (i, bounds_term(c), opt(rmin, q_str), opt(rmax, q_str),
                                                 bool_term(r["exmin"]), bool_term(r["exmax"])))
        nontrivial = sum(x is not None for x in (c["min"], c["max"], c["exmin"], c["exmax"])) >= 2
        ctx.count(req[i], nontrivial, "normalize-direct")
        if not r.get("args_intact", True):
            ctx.violation("oracle", {"fn": "normalize", "args": req[i], "result": r},
                          "NormalizeBounds wrote through its argument pointers")
    for i, r in bad_harness:
        ctx.violation("oracle", {"fn": "normalize", "args": req[i], "result": r}, "NormalizeBounds panicked: %s" % r)
    text = "From GJS Require Import Base Bounds RunC05.\nDefinition cases : list ncase := [\n  " + ";\n  ".join(lines) + "].\n"
    text += "Definition MM := Eval vm_compute in n_mismatches cases.\n"
    text += "Definition OO := Eval vm_compute in map (fun p => [Z.of_N (fst p); Qnum (snd p); Z.pos (Qden (snd p))]) (n_oracle cases).\n"
    vals = ctx.coq_lists("c05_direct", text, ["MM", "OO"])
    mism = parse_nlist(vals["MM"])
    orc = [[int(x) for x in re.findall(r"-?\d+", g)] for g in re.findall(r"\[([^\[\]]+)\]", vals["OO"])]
    ctx.cov["families"]["normalize-direct"]["exhaustive"] = True
    ctx.cov["families"]["normalize-direct"]["mismatches"] = len(mism)
    ctx.cov["disagreements_checked"] += len(cases)
    ctx.sample({"family": "normalize-direct", "args": req[777], "impl": res[777]})
    orc_idx = {}
    for g in orc:
        orc_idx[g[0]] = F(g[1], g[2])
    # oracle: the property fails on the implementation's own result
    for i, x in sorted(orc_idx.items())[:5]:
        ctx.violation("oracle", {"kind": "direct", "fn": "normalize", "args": req[i], "impl_result": res[i], "value": rat_str(x),
                                 "expected": "value accepted iff it satisfies every stated bound (Bounds.spec_bounds)"},
                      "NormalizeBounds result admits/rejects %s contrary to the stated bounds" % rat_str(x))
    # tie: implementation differs from the model but the property still holds on all probes
    for i in mism:
        if i in orc_idx:
            continue
        ctx.violation("tie", {"kind": "direct", "fn": "normalize", "args": req[i], "impl_result": res[i],
                              "correspondence": "RunC05.n_agrees (Model/Bounds.normalize_bounds vs mathutils.NormalizeBounds)"},
                      "NormalizeBounds differs from the model on %s (no probe value violates the bounds)" % json.dumps(req[i]),
                      no_input=True)
        break
    return cases


def replay_findings(ctx):
    for f in ctx.findings():
        w = f.get("witness", {})
        if w.get("kind") == "direct":
            r = ctx.jsonl("direct", [w["args"]])[0]
            fails = any(r.get(k) != v for k, v in w["expected"].items())
            ctx.known(f, fails, "got %s" % r)


def run(ctx):
    ok = ctx.proof_step(PROPS_FILE)
    run_direct(ctx)
    replay_findings(ctx)
    ctx.cov["rule"] = ("normalize-direct: every (minimum, maximum, exclusiveMinimum, exclusiveMaximum) tuple with each constant "
                       "absent or drawn from a 4-value palette (all order types incl. ties), exclusive bounds also true/false; "
                       "non-trivial = at least two keywords present; distinct by hash of the argument tuple")
    ctx.cov["exhaustive"] = True


def replay(ctx, path):
    obj = json.load(open(path))
    case = obj.get("case", obj.get("witness", {}))
    if case.get("kind") == "direct":
        r = ctx.jsonl("direct", [case["args"]])[0]
        print("implementation returns:", json.dumps(r))
        print("recorded:", json.dumps(case.get("impl_result")))
