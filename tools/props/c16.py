"""C16 - output-shaping options change only what they name."""
import json
import re

from vlib.progs import Batch
from vlib.clirun import Run, run_all
from vlib.schemagen import SchemaGen
from props.c12 import SPECIAL

PROPS_FILE = "Props/C16.v"

TITLED = {"title": "My root title", "type": "object", "$defs": {"Thing": {"title": "A thing", "type": "object", "properties": {"id": {"type": "string"}, "user_id": {"type": "integer"}}}},
          "properties": {"id": {"type": "string", "minLength": 1}, "url": {"type": "string", "pattern": "^a"}, "html_id": {"type": "number", "multipleOf": 0.5},
                         "thing": {"$ref": "#/$defs/Thing"}, "kind": {"type": "string", "enum": ["id", "url"]},
                         "extra": {"type": "object", "properties": {"k": {"type": "string"}}, "additionalProperties": {"type": "string"}}},
          "required": ["id"]}


def erase_tags(scan):
    return {"package": scan["package"], "imports": sorted(map(tuple, scan["imports"])),
            "types": [(t["name"], t["kind"], t["expr"], [(f["name"], f["type"]) for f in t.get("fields", [])]) for t in scan["types"]],
            "methods": sorted(map(tuple, scan["methods"])), "funcs": sorted(scan["funcs"]), "consts": sorted(map(tuple, scan["consts"])), "vars": sorted(scan["vars"]),
            "bodies": scan.get("bodies", {})}


def types_only(scan):
    return [(t["name"], t["kind"], t["expr"], [(f["name"], f["type"], f["tag"]) for f in t.get("fields", [])]) for t in scan["types"]]


IDENT = re.compile(r"\b[A-Z][A-Za-z0-9_]*\b")


def erase_idents(scan):
    """shape of the declarations with every exported identifier erased: what renaming options must preserve"""
    def e(s):
        return IDENT.sub("X", s)
    return {"ntypes": len(scan["types"]),
            "types": sorted((t["kind"], e(t["expr"]) if t["kind"] != "struct" else "struct", sorted((f["tag"], e(f["type"])) for f in t.get("fields", []))) for t in scan["types"]),
            "nmethods": len(scan["methods"]), "method_names": sorted(m[1] for m in scan["methods"]),
            "const_values": sorted(c[2] for c in scan["consts"]), "nvars": len(scan["vars"]), "imports": sorted(map(tuple, scan["imports"]))}


def run(ctx):
    ctx.proof_step(PROPS_FILE)
    rng = ctx.rng
    schemas = [TITLED] + list(SPECIAL[:4])
    g = SchemaGen(rng, depth=2)
    for _ in range(12 if ctx.tier == "quick" else 150):
        s = g.root()
        s["title"] = rng.choice(["Config file", "the root", "X", "user ID list"])
        schemas.append(s)
    variants = {
        "base": {}, "only_models": {"only_models": True}, "tags_json": {"tags": ["json"]}, "tags_x": {"tags": ["x", "yaml"]},
        "caps": {"capitalizations": ["ID", "URL", "HTML"]}, "title": {"struct_name_from_title": True}, "rootname": {"root": "Renamed"},
        "extra": {"extra_imports": True}, "only_models_extra": {"only_models": True, "extra_imports": True},
    }
    # option pairs: what an option may change must not depend on the other options in force
    TAGSETS = {"tj": ["json"], "tx": ["x", "yaml"], "tjm": ["json", "mapstructure"], "ty": ["yaml"]}
    CONTEXTS = {"extra": {"extra_imports": True}, "only_models": {"only_models": True}, "caps": {"capitalizations": ["ID", "URL", "HTML"]}, "minsized": {"min_sized_ints": True}}
    variants["minsized"] = {"min_sized_ints": True}
    for cn, copts in CONTEXTS.items():
        for tn, tags in TAGSETS.items():
            variants["%s_%s" % (cn, tn)] = dict(copts, tags=tags)
    variants["extra_caps"] = {"extra_imports": True, "capitalizations": ["ID", "URL", "HTML"]}
    variants["extra_minsized"] = {"extra_imports": True, "min_sized_ints": True}
    variants["only_models_minsized"] = {"only_models": True, "min_sized_ints": True}
    variants["only_models_caps"] = {"only_models": True, "capitalizations": ["ID", "URL", "HTML"]}
    b = Batch(ctx, "c16")
    for si, sc in enumerate(schemas):
        for vn, opts in variants.items():
            cid = "s%dv%s" % (si, vn.replace("_", ""))
            cfg = {"tags": ["json", "yaml", "mapstructure"]}
            cfg.update({k: v for k, v in opts.items() if k != "root"})
            cfg["mappings"] = [{"id": "", "root": opts.get("root", "" if vn == "title" else "Root"), "package": cid, "output": cid + "/gen.go"}]
            if vn == "title":
                cfg["mappings"] = []
            b.add({"id": cid, "cfg": cfg, "files": {"s.json": json.dumps(sc)}, "argv": ["s.json"], "jobs": []})
    b.run()
    nv = 0

    def viol(si, vn, msg, extra=None):
        nonlocal nv
        if nv < 6:
            c = b.case("s%dv%s" % (si, vn.replace("_", "")))
            ctx.violation("oracle", dict({"kind": "options", "variant": vn, "cfg": c["cfg"], "files": c["files"], "argv": ["s.json"]}, **(extra or {})), msg)
        nv += 1

    for si, sc in enumerate(schemas):
        sc_of = {}
        ok = True
        for vn in variants:
            c = b.case("s%dv%s" % (si, vn.replace("_", "")))
            ctx.count({"s": sc, "v": vn}, True, "option-pairs")
            if not c["gen"]["ok"]:
                ok = False
                continue
            scs = list(c["scan"].values())
            sc_of[vn] = (scs[0] if scs else None, c)
        if not ok or "base" not in sc_of or any(v[0] is None for v in sc_of.values()):
            continue
        ctx.cov["programs"] += 1
        base, bc = sc_of["base"]
        # --only-models: the same type declarations, no function, method or variable; and it must build (no unused import)
        for vn in ("only_models", "only_models_extra"):
            om, oc = sc_of[vn]
            if types_only(om) != types_only(base):
                viol(si, vn, "--only-models changes the type declarations", {"base_types": types_only(base)[:6], "types": types_only(om)[:6]})
            elif om["methods"] or om["funcs"] or om["vars"]:
                viol(si, vn, "--only-models emits methods/functions/variables: %s %s %s" % (om["methods"][:3], om["funcs"][:3], om["vars"][:3]))
            elif not oc["build_ok"]:
                viol(si, vn, "--only-models output does not build: %s" % oc["build_err"][:300])
            else:
                used = {"time", "net/netip", "github.com/atombender/go-jsonschema/pkg/types"}
                extra = [i for i in om["imports"] if i[1] not in used]
                if extra:
                    viol(si, vn, "--only-models output imports %s" % extra)
        # ... also next to another option: --only-models next to --min-sized-ints / --capitalization declares what that option alone declares
        for vn, other in (("only_models_minsized", "minsized"), ("only_models_caps", "caps")):
            om, oc = sc_of[vn]
            ov, _ = sc_of[other]
            if types_only(om) != types_only(ov):
                viol(si, vn, "--only-models changes the type declarations when combined with %s" % other, {"types_with_option": types_only(ov)[:6], "types": types_only(om)[:6]})
            elif om["methods"] or om["funcs"] or om["vars"]:
                viol(si, vn, "--only-models (with %s) emits methods/functions/variables" % other)
        # --tags: only the struct tags change
        for vn in ("tags_json", "tags_x"):
            tv, tcse = sc_of[vn]
            if erase_tags(tv) | {"package": ""} != erase_tags(base) | {"package": ""}:
                viol(si, vn, "--tags changes more than struct tags")
            else:
                want = tcse["cfg"]["tags"]
                for t in tv["types"]:
                    for f in t.get("fields", []):
                        if f["name"] == "AdditionalProperties" or (f["name"] == "Value" and len(t["fields"]) == 1 and f["tag"] == ""):
                            continue          # the mapstructure-remain field and the carrier of a wrapped enum have fixed tags
                        m = re.findall(r'(\w+):"([^"]*)"', f["tag"])
                        if [x[0] for x in m] != want or len(set(x[1] for x in m)) != 1:
                            viol(si, vn, "field %s.%s has tag %r for --tags %s" % (t["name"], f["name"], f["tag"], want))
                            break
        for cn in CONTEXTS:
            cv, _ = sc_of[cn]
            for tn in TAGSETS:
                vn = "%s_%s" % (cn, tn)
                tv, _ = sc_of[vn]
                if erase_tags(tv) | {"package": ""} != erase_tags(cv) | {"package": ""}:
                    a, bb = erase_tags(tv), erase_tags(cv)
                    diff = [k for k in a if k != "package" and a[k] != bb[k]]
                    viol(si, vn, "--tags %s changes more than struct tags when combined with %s: %s differ" % (TAGSETS[tn], cn, diff))
        # an option pair equals the composition of its parts: capitalisations / sized ints do not change what --extra-imports adds
        for vn, (a_, b_) in {"extra_caps": ("caps", "extra"), "extra_minsized": ("minsized", "extra")}.items():
            pv, _ = sc_of[vn]
            av, _ = sc_of[a_]
            if types_only(pv) != types_only(av):
                viol(si, vn, "--extra-imports changes the type declarations when combined with %s" % a_)
            ya = [k for k in pv.get("bodies", {}) if k.endswith("UnmarshalYAML")]
            ja = [k for k in pv.get("bodies", {}) if k.endswith("UnmarshalJSON")]
            if len(ya) != len(ja):
                viol(si, vn, "%s: %d UnmarshalYAML for %d UnmarshalJSON" % (vn, len(ya), len(ja)))
        # naming options: only identifiers change
        for vn in ("caps", "title", "rootname"):
            nv_, _ = sc_of[vn]
            if erase_idents(nv_) != erase_idents(base):
                viol(si, vn, "a naming option changes more than identifiers", {"base_shape": erase_idents(base), "shape": erase_idents(nv_)})
        # --extra-imports off: no YAML code or import; JSON code identical with it on
        ex, _ = sc_of["extra"]
        if any("yaml" in i[1] for i in base["imports"]) or any(m[1].endswith("YAML") for m in base["methods"]):
            viol(si, "base", "YAML code or import without --extra-imports")
        if types_only(ex) != types_only(base) or sorted(map(tuple, ex["consts"])) != sorted(map(tuple, base["consts"])) or sorted(ex["vars"]) != sorted(base["vars"]):
            viol(si, "extra", "--extra-imports changes types, constants or variables")
        jb = {k: v for k, v in base.get("bodies", {}).items() if k.endswith("JSON")}
        je = {k: v for k, v in ex.get("bodies", {}).items() if k.endswith("JSON")}
        if jb != je:
            diff = [k for k in set(jb) | set(je) if jb.get(k) != je.get(k)]
            viol(si, "extra", "--extra-imports changes the JSON methods %s" % diff[:4])
        ybodies = [k for k in ex.get("bodies", {}) if k.endswith("UnmarshalYAML")]
        if len(ybodies) != len([k for k in jb if k.endswith("UnmarshalJSON")]):
            viol(si, "extra", "--extra-imports: %d UnmarshalYAML for %d UnmarshalJSON" % (len(ybodies), len(jb)))
    # flag wiring: the CLI with a flag == the library with the corresponding option
    cli_runs, cli_meta = [], []
    flagmap = {"base": [], "only_models": ["--only-models"], "tags_json": ["--tags", "json"], "caps": ["--capitalization", "ID,URL,HTML"],
               "extra": ["--extra-imports"], "rootname": ["--schema-root-type", "=Renamed", "--schema-output", "=-"],
               "minsized": ["--min-sized-ints"], "only_models_minsized": ["--only-models", "--min-sized-ints"], "only_models_extra": ["--only-models", "--extra-imports"],
               "extra_minsized": ["--extra-imports", "--min-sized-ints"], "only_models_caps": ["--only-models", "--capitalization", "ID,URL,HTML"],
               "extra_caps": ["--extra-imports", "--capitalization", "ID,URL,HTML"]}
    for si in range(min(4, len(schemas))):
        for vn, flags in flagmap.items():
            cid = "s%dv%s" % (si, vn.replace("_", ""))
            argv = ["-p", cid] + flags + ["s.json"]
            if vn != "rootname":
                argv = ["-p", cid, "--schema-root-type", "=Root", "--schema-output", "=-"] + flags + ["s.json"]
            cli_runs.append(Run("w%d%s" % (si, vn), {"s.json": json.dumps(schemas[si])}, argv))
            cli_meta.append((si, vn, cid))
    run_all(ctx, cli_runs)
    for r, (si, vn, cid) in zip(cli_runs, cli_meta):
        c = b.case(cid)
        ctx.count({"cli": r.argv, "s": si}, True, "flag-wiring")
        want = list(c["gen"]["outputs"].values())
        if r.status != 0 or not want or r.stdout.decode("utf-8", "replace") != want[0]:
            viol(si, vn, "CLI flags %s do not produce what the library produces for the option" % r.argv, {"cli_stderr": r.stderr.decode("utf-8", "replace")[:300]})
    ctx.cov["disagreements_checked"] = len(b.cases) + len(cli_runs)
    from vlib import regress
    regress.wide_options(ctx)          # the shape-agnostic search step (DESIGN.md 12.8)
    ctx.cov["rule"] = ("a titled schema exercising every naming source, 4 special schemas, random in-guard schemas with titles; each generated under 9 option sets differing from "
                       "the base in one option (only-models with/without extra-imports, two tag lists, capitalisations, struct-name-from-title, root-type mapping, extra-imports); "
                       "go/parser projections compared: types+fields+tags, methods, functions, vars, consts, imports, method bodies; only-models outputs compiled; flag wiring: "
                       "CLI output == library output for each flag on 4 schemas; non-trivial = every program; distinct by hash of (schema, option set)")
    ctx.sample({"family": "option-pairs", "schema": schemas[0], "variant": "only_models", "types": [t["name"] for t in b.case("s0vonlymodels")["scan"].get("s0vonlymodels/gen.go", {}).get("types", [])]})


def replay(ctx, path):
    obj = json.load(open(path))
    case = obj.get("case", {})
    b = Batch(ctx, "c16rp")
    b.add({"id": "r0", "cfg": case["cfg"], "files": case["files"], "argv": case["argv"], "jobs": []})
    b.run()
    c = b.case("r0")
    print(json.dumps({"gen": c["gen"].get("ok"), "build_ok": c["build_ok"], "build_err": c["build_err"], "scan": c["scan"]}, indent=1)[:5000])
