"""C06 - string length and pattern constraints are enforced exactly."""
import itertools
import json

from vlib.kitchen import PATTERNS, Docs
from vlib.valuecheck import build_cases, evaluate, replay, collide_root  # noqa: F401
from vlib.kitchen import run_cases

PROPS_FILE = "Props/C06.v"


def systematic():
    """every presence combination of minLength/maxLength/pattern x required/optional/nullable/definition position"""
    out = []
    pats = sorted(PATTERNS)
    k = 0
    for mask in range(1, 8):
        for pos in ("required", "optional", "nullable", "nullable-required", "definition", "definition-optional", "item-ref"):
            s = {"type": "string"}
            if mask & 1:
                s["minLength"] = [2, 3, 1][k % 3]
            if mask & 2:
                s["maxLength"] = s.get("minLength", 1) + [0, 2, 3][k % 3]
            if mask & 4:
                s["pattern"] = pats[k % len(pats)]
            k += 1
            try:
                Docs({"type": "object"}, __import__("random").Random(k)).valid(s)
            except ValueError:
                s.pop("pattern", None)
                if len(s) == 1:
                    s["minLength"] = 1
            root = {"type": "object", "properties": {"other": {"type": "integer"}}}
            if pos == "required":
                root["properties"]["s"] = s
                root["required"] = ["s"]
            elif pos == "optional":
                root["properties"]["s"] = s
            elif pos.startswith("nullable"):
                root["properties"]["s"] = dict(s, type=["string", "null"])
                if pos == "nullable-required":
                    root["required"] = ["s"]
            elif pos.startswith("definition"):
                root["$defs"] = {"Str": s}
                root["properties"]["s"] = {"$ref": "#/$defs/Str"}
                if pos == "definition":
                    root["required"] = ["s"]
            else:
                root["$defs"] = {"Str": s}
                root["properties"]["s"] = {"type": "array", "items": {"$ref": "#/$defs/Str"}}
            out.append(root)
    # inline types whose Go names collide and that differ only in their string constraints
    for a, b in (({"minLength": 3}, {"maxLength": 2}), ({"pattern": "^[a-z]+$"}, {"pattern": "^[A-Z][a-z]*$"}), ({"minLength": 1, "maxLength": 2}, {"minLength": 2, "maxLength": 4})):
        out.append(collide_root(dict(a, type="string"), dict(b, type="string"), key="s"))
        out.append(collide_root(dict(b, type="string"), dict(a, type="string"), key="s", required=True))
    return out


CLASSES = {"string", "string-valid", "optional-absent", "null-allowed", "valid"}


def extension_cases():
    """string properties whose `goJSONSchema` extension does not name a Go type (it only renames the field or restates that the type is not nillable): they are
    still plain strings, and their length and pattern checks still apply - required, optional, nullable and as a named definition"""
    from vlib.kitchen import Case
    out = []
    for i, ext in enumerate(({"identifier": "Renamed"}, {"nillable": False}, {"identifier": "Renamed", "nillable": False})):
        def leaf(extra, ident, tl="string"):
            e = dict(ext)
            if "identifier" in e:
                e["identifier"] = ident
            return dict({"type": tl, "goJSONSchema": e}, **extra)
        root = {"type": "object", "required": ["id"],
                "properties": {"id": leaf({"minLength": 3, "maxLength": 5}, "TheID"), "nick": leaf({"pattern": "^[a-z]+$"}, "TheNick"),
                               "alias": leaf({"maxLength": 4}, "TheAlias", ["string", "null"]), "note": {"type": "string", "maxLength": 3}}}
        docs = [{"doc": {"id": "abcd", "nick": "bob", "alias": "al", "note": "n"}, "cls": "valid", "path": (), "expect": "ACC"},
                {"doc": {"id": "abc", "alias": None}, "cls": "valid", "path": (), "expect": "ACC"}]
        for k, bads in (("id", ["ab", "abcdef", ""]), ("nick", ["Bob1", "", "a b"]), ("alias", ["abcde"]), ("note", ["nnnn"])):
            for v in bads:
                docs.append({"doc": dict({"id": "abcd"}, **{k: v}), "cls": "string", "path": (k,), "expect": "REJ"})
        out.append(Case("c06ext%d" % i, root, docs, fam="extension-without-type/%s" % "+".join(sorted(ext)), no_model=True, extra_imports=(i == 1)))
    return out


def run(ctx):
    ctx.proof_step(PROPS_FILE)
    n = 30 if ctx.tier == "quick" else 400
    from vlib.pairwise import pairwise
    sysm = systematic() + [r for _, r in pairwise(types=["string"])]
    cases = build_cases(ctx, len(sysm) + n, ["string"], CLASSES | {"type", "null-not-allowed", "required"}, "c06x",
                        gen_kwargs={"allow_formats": False}, extra_schemas=sysm, docs_per=2 if ctx.tier == "quick" else 4)
    from vlib.overlay import overlay_cases
    cases = cases + overlay_cases("string", "c06")
    # the same checks as emitted for the YAML decoder (a second rendering of the same validators)
    from vlib.kitchen import Case
    import copy as _copy
    ycases = [Case(c.cid + "y", c.schema, _copy.deepcopy([d for d in c.docs if "raw" not in d and not d.get("prior")]), extra_imports=True, wire="yaml", fam="yaml/" + c.fam, no_model=True)
              for c in cases if c.fam.startswith("systematic") or c.fam.startswith("overlay")]
    jcases = [Case(c.cid + "j", c.schema, _copy.deepcopy(c.docs), extra_imports=True, wire="json", fam="yaml-twin/" + c.fam, no_model=True) for c in ycases]
    from vlib.overlay import sibling_group_cases
    from vlib.valuecheck import expect_cases
    from vlib.lookalike import lookalike_cases
    sg = sibling_group_cases("string", "c06") + extension_cases() + lookalike_cases("c06", "string")
    run_cases(ctx, cases + ycases + jcases + sg, "c06")
    expect_cases(ctx, sg, "string constraints")
    nyv = 0
    for cy, cj in zip(ycases, jcases):
        if not (cy.build_ok and cj.build_ok):
            continue
        for di, (dy, dj) in enumerate(zip(cy.docs, cj.docs)):
            oy, oj = dy.get("obs") or {}, dj.get("obs") or {}
            ctx.count({"s": cy.schema, "d": dy["doc"], "w": "yaml"}, True, "string constraints/yaml")
            if dy["cls"] in ("string", "string-valid") and oy.get("v") != oj.get("v") and nyv < 3:
                ctx.violation("oracle", cy.replay_obj(di), "string constraints through the YAML decoder: document %s (%s) is %s by UnmarshalJSON and %s by UnmarshalYAML" % (
                    json.dumps(dy["doc"])[:200], dy["cls"], oj.get("v"), oy.get("v")))
                nyv += 1
                break
    evaluate(ctx, cases, CLASSES, {"string": "invalid", "string-valid": "valid", "optional-absent": "by-spec", "null-allowed": "valid", "valid": "valid"},
             "string constraints")
    from vlib.valuecheck import replay_findings
    from vlib import regress
    regress.search(ctx, {"C06"})          # the shape-agnostic search step (DESIGN.md 12.8)
    replay_findings(ctx)
    ctx.cov["rule"] = ("systematic: all 7 presence combinations of minLength/maxLength/pattern x 7 positions (required, optional, nullable, nullable required, "
                       "named definition required/optional, array item by reference); random: string-focused in-guard schemas; per schema 2-4 valid documents, "
                       "each with its single-fault mutants (strings of length min-1, min, max, max+1, matching and non-matching, absent, null); "
                       "non-trivial = a mutant or a non-empty valid document; distinct by hash of (schema, document)")
    ctx.sample({"family": "systematic", "schema": cases[3].schema, "doc": cases[3].docs[1]["doc"], "class": cases[3].docs[1]["cls"],
                "impl": cases[3].docs[1].get("obs", {}).get("v"), "valid": cases[3].docs[1].get("valid")})
