"""C20 - each schema's code lands once, in the file and package mapped to its id."""
import itertools
import json
import os
import shutil

from vlib.clirun import Run, run_all, sha
from vlib.core import env_go, REPO

PROPS_FILE = "Props/C20.v"

GOMOD = '''module example.com

go 1.23.0

replace github.com/atombender/go-jsonschema => %s

require (
	github.com/atombender/go-jsonschema v0.16.0
	github.com/go-viper/mapstructure/v2 v2.1.0
	gopkg.in/yaml.v3 v3.0.1
)
'''


def layouts(ctx):
    """(name, files: path -> schema, mappings: id -> (package, output), top-level argument lists)"""
    out = []
    A = {"$id": "http://x/a", "type": "object", "properties": {"b": {"$ref": "sub/b.json"}, "n": {"type": "string", "minLength": 1}, "c": {"$ref": "sub/b.json#/$defs/Color"}},
         "required": ["n"]}
    B = {"$id": "http://x/b", "type": "object", "$defs": {"Color": {"type": "string", "enum": ["red", "green"]}},
         "properties": {"c": {"$ref": "../c.yaml#/$defs/Leaf"}, "k": {"type": "integer", "minimum": 0}, "col": {"$ref": "#/$defs/Color"}}}
    C = {"$id": "http://x/c", "type": "object", "$defs": {"Leaf": {"type": "object", "properties": {"v": {"type": "number"}}, "required": ["v"]}},
         "properties": {"leaf": {"$ref": "#/$defs/Leaf"}}}
    D = {"$id": "http://x/d", "type": "object", "properties": {"solo": {"type": "boolean"}, "w": {"type": "array", "items": {"type": "string"}, "minItems": 1}}}
    files3 = {"a.json": A, "sub/b.json": B, "c.yaml": C}
    maps3 = {"http://x/a": ("example.com/pa", "pa/gen.go"), "http://x/b": ("example.com/pb", "pb/gen.go"), "http://x/c": ("example.com/pc", "pc/gen.go")}
    out.append(("three-packages", files3, maps3, [["a.json", "sub/b.json", "c.yaml"]], None))
    out.append(("three-packages+unrelated", dict(files3, **{"d.json": D}), dict(maps3, **{"http://x/d": ("example.com/pd", "pd/gen.go")}),
                [["a.json", "sub/b.json", "c.yaml", "d.json"]], "three-packages"))
    out.append(("top-only", files3, maps3, [["a.json"]], "three-packages"))
    # two packages whose import paths share the last element
    S = {"$id": "http://x/shop", "type": "object", "properties": {"item": {"$ref": "../stock/item.json"}, "qty": {"type": "integer", "minimum": 1}}, "required": ["item"]}
    I = {"$id": "http://x/stock", "type": "object", "properties": {"sku": {"type": "string", "minLength": 2}}, "required": ["sku"]}
    out.append(("same-last-element", {"shop/order.json": S, "stock/item.json": I},
                {"http://x/shop": ("example.com/shop/model", "shop/model/order.go"), "http://x/stock": ("example.com/stock/model", "stock/model/item.go")},
                [["shop/order.json", "stock/item.json"]], None))
    # one package, two files, distinct outputs
    P = {"$id": "http://x/p", "type": "object", "properties": {"q": {"$ref": "q.json"}}}
    Q = {"$id": "http://x/q", "type": "object", "properties": {"z": {"type": "string"}}}
    out.append(("one-package-two-files", {"p.json": P, "q.json": Q}, {"http://x/p": ("example.com/pk", "pk/p.go"), "http://x/q": ("example.com/pk", "pk/q.go")},
                [["p.json", "q.json"]], None))
    # ... both files with generated methods (each file needs its own encoding imports), and a third file of the same package
    P2 = {"$id": "http://x/p", "type": "object", "properties": {"q": {"$ref": "q.json"}, "name": {"type": "string", "minLength": 1}, "kind": {"enum": ["a", "b"]}}, "required": ["name"]}
    Q2 = {"$id": "http://x/q", "type": "object", "properties": {"z": {"type": "string", "pattern": "^z"}, "n": {"type": "integer", "minimum": 1}}, "required": ["z"]}
    R2 = {"$id": "http://x/r", "type": "object", "properties": {"when": {"type": "string", "format": "date-time"}, "tags": {"type": "array", "items": {"type": "string"}, "minItems": 1}}, "required": ["when"]}
    out.append(("one-package-three-files-with-methods", {"p.json": P2, "q.json": Q2, "r.json": R2},
                {"http://x/p": ("example.com/pk", "pk/p.go"), "http://x/q": ("example.com/pk", "pk/q.go"), "http://x/r": ("example.com/pk", "pk/r.go")},
                [["p.json", "q.json", "r.json"], ["r.json", "p.json"]], None))
    # no mappings at all: everything to the default output
    out.append(("defaults", {"p.json": {k: v for k, v in P.items() if k != "$id"}, "q.json": {k: v for k, v in Q.items() if k != "$id"}}, {}, [["p.json", "q.json"]], None))
    # four files, diamond
    W = {"$id": "http://x/w", "type": "object", "properties": {"l": {"$ref": "l.json"}, "r": {"$ref": "r.json"}}}
    L = {"$id": "http://x/l", "type": "object", "properties": {"base": {"$ref": "base.json#/$defs/Base"}, "ln": {"type": "string"}}}
    R = {"$id": "http://x/r", "type": "object", "properties": {"base": {"$ref": "base.json#/$defs/Base"}, "rn": {"type": "integer"}}}
    Bs = {"$id": "http://x/base", "type": "object", "$defs": {"Base": {"type": "object", "properties": {"id": {"type": "string", "minLength": 1}}, "required": ["id"]}}}
    out.append(("diamond", {"w.json": W, "l.json": L, "r.json": R, "base.json": Bs},
                {"http://x/w": ("example.com/w", "w/gen.go"), "http://x/l": ("example.com/l", "l/gen.go"), "http://x/r": ("example.com/r", "r/gen.go"), "http://x/base": ("example.com/base", "base/gen.go")},
                [["w.json", "l.json", "r.json", "base.json"]], None))
    # two unrelated files that use the same local reference text (inside allOf, and plainly) for different definitions
    def withbase(i, base_props, extra):
        return {"$id": "http://x/" + i, "type": "object", "definitions": {"Base": {"type": "object", "properties": base_props, "required": sorted(base_props)[:1]}},
                "properties": {"m": {"allOf": [{"$ref": "#/definitions/Base"}, {"type": "object", "properties": extra}]}, "plain": {"$ref": "#/definitions/Base"}}}
    out.append(("same-local-ref-text", {"a.json": withbase("a", {"alpha": {"type": "string"}}, {"x": {"type": "integer"}}),
                                        "b.json": withbase("b", {"beta": {"type": "string", "minLength": 2}, "b2": {"type": "integer"}}, {"y": {"type": "integer"}})},
                {"http://x/a": ("example.com/pa", "pa/gen.go"), "http://x/b": ("example.com/pb", "pb/gen.go")}, [["a.json", "b.json"]], None))
    # two different files carrying the same id (one mapping for both): both land, completely, in the mapped file; a third package refers into one of them
    CU = {"$id": "http://x/crm", "type": "object", "$defs": {"Tag": {"type": "string", "minLength": 1}}, "properties": {"name": {"type": "string"}, "tags": {"type": "array", "items": {"$ref": "#/$defs/Tag"}}}}
    IN = {"$id": "http://x/crm", "type": "object", "$defs": {"Line": {"type": "object", "properties": {"qty": {"type": "integer", "minimum": 1}}, "required": ["qty"]}},
          "properties": {"lines": {"type": "array", "items": {"$ref": "#/$defs/Line"}}}}
    OR = {"$id": "http://x/orders", "type": "object", "properties": {"first": {"$ref": "invoice.json#/$defs/Line"}, "n": {"type": "integer"}}}
    out.append(("same-id-two-files", {"customer.json": CU, "invoice.json": IN, "order.json": OR},
                {"http://x/crm": ("example.com/crm", "crm/gen.go"), "http://x/orders": ("example.com/orders", "orders/gen.go")}, [["customer.json", "invoice.json", "order.json"]], None))
    out.append(("same-id-two-files-pair", {"customer.json": CU, "invoice.json": IN}, {"http://x/crm": ("example.com/crm", "crm/gen.go")}, [["customer.json", "invoice.json"]], None))
    # two files of one directory that differ only in their extension, and dotted stems reached through extension-less references
    IJ = {"$id": "http://x/ij", "type": "object", "properties": {"sku": {"type": "string"}}}
    IY = {"$id": "http://x/iy", "type": "object", "properties": {"qty": {"type": "integer"}}}
    out.append(("same-stem-two-extensions", {"item.json": IJ, "item.yaml": IY},
                {"http://x/ij": ("example.com/ij", "ij/gen.go"), "http://x/iy": ("example.com/iy", "iy/gen.go")}, [["item.json", "item.yaml"]], None))
    T1 = {"$id": "http://x/t1", "type": "object", "$defs": {"Thing": {"type": "object", "properties": {"a": {"type": "string"}}}}, "properties": {"t": {"$ref": "#/$defs/Thing"}}}
    T2 = {"$id": "http://x/t2", "type": "object", "$defs": {"Other": {"type": "object", "properties": {"b": {"type": "integer"}}}}, "properties": {"o": {"$ref": "#/$defs/Other"}}}
    U = {"$id": "http://x/u", "type": "object", "properties": {"one": {"$ref": "types.v1#/$defs/Thing"}, "two": {"$ref": "types.v2#/$defs/Other"}}}
    out.append(("dotted-stems-extensionless", {"u.json": U, "types.v1.json": T1, "types.v2.json": T2},
                {"http://x/u": ("example.com/u", "u/gen.go"), "http://x/t1": ("example.com/t1", "t1/gen.go"), "http://x/t2": ("example.com/t2", "t2/gen.go")},
                [["u.json"]], None))
    # two mapped ids of which one is a string prefix of the other
    OR2 = {"$id": "http://x/schemas/order", "type": "object", "properties": {"items": {"type": "array", "items": {"$ref": "order-item.json#/definitions/Item"}}, "n": {"type": "string", "minLength": 1}}, "required": ["n"]}
    OI2 = {"$id": "http://x/schemas/order-item", "type": "object", "definitions": {"Item": {"type": "object", "properties": {"sku": {"type": "string", "minLength": 2}}, "required": ["sku"]}},
           "properties": {"first": {"$ref": "#/definitions/Item"}}}
    out.append(("prefix-ids", {"order.json": OR2, "order-item.json": OI2},
                {"http://x/schemas/order": ("example.com/order", "order/order.go"), "http://x/schemas/order-item": ("example.com/item", "item/item.go")},
                [["order.json", "order-item.json"], ["order.json"]], None))
    out.append(("prefix-ids-reversed-flags", {"order.json": OR2, "order-item.json": OI2},
                {"http://x/schemas/order-item": ("example.com/item", "item/item.go"), "http://x/schemas/order": ("example.com/order", "order/order.go")},
                [["order-item.json", "order.json"]], None))
    # ids in the spellings they take in the wild (draft-04 trailing '#', upper-case scheme and host, urn, non-ASCII and spaces, relative), each with mappings keyed by the id as written
    ids = ["http://example.com/schemas/a#", "HTTP://Example.COM/Schemas/B", "urn:example:schemas:c", "http://example.com/sch\u00e9mas/d e", "schemas/e.json", "http://example.com/f?x=1&y=2#frag"][:6]
    ids[5] = "http://example.com/f?x&y#frag"          # (an '=' cannot be part of a --schema-* key)
    fs, mp = {}, {}
    for i, idv in enumerate(ids):
        nm = "f%d" % i
        sc = {"$id": idv, "type": "object", "$defs": {"T%d" % i: {"type": "object", "properties": {"v": {"type": "integer", "minimum": i}}, "required": ["v"]}},
              "properties": {"own": {"$ref": "#/$defs/T%d" % i}, "name": {"type": "string", "minLength": 1}}}
        if i > 0:
            sc["properties"]["prev"] = {"$ref": "f%d.json#/$defs/T%d" % (i - 1, i - 1)}
        fs[nm + ".json"] = sc
        mp[idv] = ("example.com/p%d" % i, "p%d/gen.go" % i)
    out.append(("id-spellings", fs, mp, [sorted(fs), ["f5.json"]], None))
    # a chain through sub-directories whose middle file has a root without `type` (such a root is emitted by the generator made for the reference):
    # main.json -> lib/mid.json -> leaf.json, every id with its own package; with and without an unrelated lib/leaf.json next to the working directory
    MAIN = {"$id": "http://x/main", "type": "object", "properties": {"mid": {"$ref": "lib/mid.json"}, "n": {"type": "string"}}}
    MID = {"$id": "http://x/mid", "properties": {"leaf": {"$ref": "leaf.json"}, "k": {"type": "integer"}}, "required": ["leaf"]}
    LEAF = {"$id": "http://x/leaf", "type": "object", "properties": {"v": {"type": "string", "minLength": 1}}, "required": ["v"]}
    DECOY = {"$id": "http://x/decoy", "type": "object", "properties": {"w": {"type": "integer"}}}
    chain = {"schemas/main.json": MAIN, "schemas/lib/mid.json": MID, "schemas/lib/leaf.json": LEAF}
    cmaps = {"http://x/main": ("example.com/cm", "cm/main.go"), "http://x/mid": ("example.com/cmid", "cmid/mid.go"), "http://x/leaf": ("example.com/cleaf", "cleaf/leaf.go")}
    out.append(("chain-typeless-middle", chain, cmaps, [["schemas/main.json"]], None))
    out.append(("chain-typeless-middle+decoys", dict(chain, **{"../lib/leaf.json": DECOY, "lib/leaf.json": DECOY, "schemas/leaf.json": DECOY}), cmaps, [["schemas/main.json"]], "chain-typeless-middle"))
    # name parts that differ between the files only in the case of their non-initial letters (baseURL / url, userID / userId): the code generated for a
    # file is the same whether it is processed alone, first or second
    CA = {"$id": "http://x/ca", "type": "object", "properties": {"baseURL": {"type": "string"}, "userID": {"type": "integer"}, "htmlBody": {"type": "string"}}}
    CB = {"$id": "http://x/cb", "type": "object", "properties": {"url": {"type": "string"}, "userId": {"type": "integer"}, "HTMLbody": {"type": "string"}, "Html": {"type": "boolean"}}}
    out.append(("case-variants-across-files", {"ca.json": CA, "cb.json": CB}, {"http://x/ca": ("example.com/ca", "ca/ca.go"), "http://x/cb": ("example.com/cb", "cb/cb.go")},
                [["ca.json", "cb.json"]], None))
    # two ids mapped to ONE file of one package under different spellings of its path: the file holds both schemas' code, in every order
    for si, (sp1, sp2) in enumerate((("pk/gen.go", "./pk/gen.go"), ("pk/gen.go", "pk/../pk/gen.go"), ("./pk//gen.go", "pk/gen.go"))):
        out.append(("one-file-two-spellings-%d" % si, {"p.json": P2, "q.json": Q2}, {"http://x/p": ("example.com/pk", sp1), "http://x/q": ("example.com/pk", sp2)},
                    [["p.json", "q.json"], ["q.json", "p.json"]], None))
    return out


def root_type_name(path):
    """the root type name the CLI derives from the file name under --resolve-extension .json (argv_for): .json is stripped, other extensions stay"""
    import re as _re
    base = os.path.basename(path)
    if base.endswith(".json"):
        base = base[:-5]
    return "".join(w[:1].upper() + w[1:] for w in _re.split(r"[^A-Za-z0-9]+", base) if w)


def argv_for(maps, args):
    argv = ["-p", "example.com/dflt", "-o", "dflt/gen.go", "--resolve-extension", ".json", "--yaml-extension", ".yaml"]
    for i, (pk, outp) in maps.items():
        argv += ["--schema-package", "%s=%s" % (i, pk), "--schema-output", "%s=%s" % (i, "out/" + outp)]
    argv[3] = "out/dflt/gen.go"
    return argv + ["in/" + a for a in args]


def build_outputs(ctx, name, created):
    d = os.path.join(ctx.scratch, "c20build", name)
    if os.path.isdir(d):
        shutil.rmtree(d)
    os.makedirs(d)
    for k, v in created.items():
        if not k.startswith("out/"):
            continue
        p = os.path.join(d, k[4:])
        os.makedirs(os.path.dirname(p), exist_ok=True)
        open(p, "wb").write(v)
    open(os.path.join(d, "go.mod"), "w").write(GOMOD % REPO)
    shutil.copy(os.path.join(ctx.harness_dir(), "go.sum"), os.path.join(d, "go.sum"))
    p = ctx.sh(["go", "build", "./..."], cwd=d, env=env_go(), timeout=600)
    shutil.rmtree(d, ignore_errors=True)
    return p.returncode == 0, (p.stdout + p.stderr)[-1500:]


def run(ctx):
    ctx.proof_step(PROPS_FILE)
    lay = layouts(ctx)
    runs, meta = [], []
    for li, (name, files, maps, arglists, same_as) in enumerate(lay):
        fs = {"in/" + k: (json.dumps(v) if not k.endswith(".yaml") else json.dumps(v)) for k, v in files.items()}
        for ai, args in enumerate(arglists):
            perms = list(itertools.permutations(args))
            if ctx.tier == "quick" and len(perms) > 6:
                perms = perms[::4]
            for pi, perm in enumerate(perms):
                runs.append(Run("l%da%dp%d" % (li, ai, pi), fs, argv_for(maps, list(perm))))
                meta.append((li, name, perm))
    # every top-level file also on its own: its output must be the same as in the combined run
    alone = []
    for li, (name, files, maps, arglists, same_as) in enumerate(lay):
        fs = {"in/" + k: json.dumps(v) for k, v in files.items()}
        for a in arglists[0]:
            if len(arglists[0]) > 1 and files[a].get("$id") in maps and not name.startswith("same-id") and not name.startswith("one-file-two-spellings"):
                alone.append((li, a, Run("l%da%s" % (li, a.replace("/", "_").replace(".", "_")), fs, argv_for(maps, [a]))))
    run_all(ctx, runs + [x[2] for x in alone])
    by = {}
    for r, (li, name, perm) in zip(runs, meta):
        by.setdefault(li, []).append((perm, r))
    nv = 0
    ref_outputs = {}

    def viol(r, msg, extra=None):
        nonlocal nv
        if nv < 6:
            ctx.violation("oracle", dict({"kind": "cli", "files": {k: v for k, v in r.files.items()}, "argv": r.argv, "run": r.describe()}, **(extra or {})), msg)
        nv += 1

    from vlib.core import Ctx  # noqa: F401
    for li, lst in sorted(by.items()):
        name, files, maps, arglists, same_as = lay[li]
        ctx.cov["programs"] += 1
        first = lst[0][1]
        for perm, r in lst:
            ctx.count({"layout": name, "order": perm}, True, "layouts/" + name)
            if r.status != 0 or r.panicked:
                viol(r, "layout %s, order %s: the tool failed: %s" % (name, perm, r.stderr.decode("utf-8", "replace")[:200]))
                break
            if {k: sha(v) for k, v in r.created.items()} != {k: sha(v) for k, v in first.created.items()}:
                diff = [k for k in set(r.created) | set(first.created) if r.created.get(k) != first.created.get(k)]
                viol(r, "layout %s: argument order %s changes the generated files %s (compared with order %s)" % (name, perm, diff, lst[0][0]))
                break
        if first.status != 0:
            continue
        ref_outputs[name] = first.created
        # every mapped schema that was loaded lands in its own file, with its own package clause
        scan_req = [{"id": k, "src": v.decode("utf-8", "replace")} for k, v in first.created.items() if k.endswith(".go")]
        scans = {s["id"]: s for s in ctx.jsonl("scan", scan_req)} if scan_req else {}
        expected_files = set(os.path.normpath("out/" + o) for (pk, o) in maps.values()) if maps else {"out/dflt/gen.go"}
        loaded_all = name != "defaults"
        if set(first.created) != expected_files:
            viol(first, "layout %s: files written %s, expected %s" % (name, sorted(first.created), sorted(expected_files)))
            continue
        for i, (pk, o) in maps.items():
            s = scans.get(os.path.normpath("out/" + o))
            if s is None or s["package"] != pk.rsplit("/", 1)[-1]:
                viol(first, "layout %s: schema %s should be in package %s file %s, found package %s" % (name, i, pk, o, s and s["package"]))
        # declarations: each type name at most once across the files of one package, root types present
        seen = {}
        for fn, s in scans.items():
            for t in s["types"]:
                key = (os.path.dirname(fn), t["name"])
                if key in seen:
                    viol(first, "layout %s: type %s declared in %s and %s" % (name, t["name"], seen[key], fn))
                seen[key] = fn
        # every file given on the command line: its root type and its definitions are declared in the file its id maps to
        for a in arglists[0]:
            sc = files[a]
            target = os.path.normpath("out/" + (maps[sc["$id"]][1] if sc.get("$id") in maps else "dflt/gen.go"))
            have = set(t["name"] for t in scans.get(target, {"types": []})["types"])
            want = set([root_type_name(a)] + [d[:1].upper() + d[1:] for d in list(sc.get("$defs", {})) + list(sc.get("definitions", {})) if d.isalnum()])
            if not want <= have:
                viol(first, "layout %s: %s (id %s) should declare %s in %s; missing %s" % (name, a, sc.get("$id"), sorted(want), target, sorted(want - have)))
        ok, log = build_outputs(ctx, name, first.created)
        if not ok:
            viol(first, "layout %s: the emitted packages do not build together: %s" % (name, log[-400:]))
        for li2, a, ra in alone:
            if li2 != li:
                continue
            ctx.count({"layout": name, "alone": a}, True, "layouts/" + name)
            target = os.path.normpath("out/" + maps[files[a]["$id"]][1])
            if ra.status != 0:
                viol(ra, "layout %s: %s alone fails: %s" % (name, a, ra.stderr.decode("utf-8", "replace")[:200]))
            elif ra.created.get(target) != first.created.get(target):
                viol(ra, "layout %s: the code generated for %s (%s) differs between the run on that file alone and the combined run %s" % (name, a, target, lst[0][0]))
        # unrelated additions / top-only invocation leave the common files untouched
        if same_as and same_as in ref_outputs:
            for k, v in ref_outputs[same_as].items():
                if first.created.get(k) != v:
                    viol(first, "layout %s: file %s differs from the one generated by layout %s" % (name, k, same_as))
                    break
    ctx.cov["disagreements_checked"] = len(runs)
    replay_findings(ctx)
    from vlib import regress
    regress.wide_layouts(ctx, {"C20"})          # the shape-agnostic search step (DESIGN.md 12.8)
    ctx.cov["rule"] = ("7 layouts of 2-4 schema files (three packages with references through sub- and parent directories and a YAML file; the same plus an unrelated file; only "
                       "the top file on the command line; two packages whose import paths end in the same element; one package in two files; no mappings; a diamond of four "
                       "files; two unrelated files using the same local reference text for different definitions; two different files carrying the same id, with and without a third package referring into one of them); every top-level file also alone; the root type and the definitions of every file given on the command line are declared in the file its id maps to; every argument order (at most 24; every fourth in the quick tier beyond 6); observables: files written, package clauses, type names per package, "
                       "go build of all emitted packages in one module, byte identity across orders and against the layout it extends; non-trivial = every run")
    r = runs[0]
    ctx.sample({"family": "layouts", "argv": r.argv, "created": sorted(r.created), "status": r.status})


def replay_findings(ctx):
    for f in ctx.findings():
        w = f.get("witness", {})
        if w.get("kind") == "cli-order":
            rs = [Run("kfa", w["files"], w["argv_a"]), Run("kfb", w["files"], w["argv_b"])]
            run_all(ctx, rs)
            ctx.known(f, rs[0].stdout != rs[1].stdout, "outputs %s" % ("differ" if rs[0].stdout != rs[1].stdout else "agree"))
        elif w.get("kind") == "cli-grep":
            r = Run("kfg", w["files"], w["argv"])
            run_all(ctx, [r])
            out = r.stdout.decode("utf-8", "replace") + "".join(v.decode("utf-8", "replace") for v in r.created.values())
            missing = [m for m in w["must_contain"] if m not in out]
            ctx.known(f, r.status == 0 and bool(missing), "status %s, missing %s" % (r.status, missing))


def replay(ctx, path):
    obj = json.load(open(path))
    case = obj.get("case", {})
    r = Run("rp", case["files"], case["argv"])
    run_all(ctx, [r])
    print(json.dumps(r.describe(), indent=1)[:4000])
