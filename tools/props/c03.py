"""C03 - a value of the wrong JSON type is rejected; null is accepted where allowed."""
import json

from vlib.valuecheck import build_cases, evaluate, replay  # noqa: F401
from vlib.kitchen import run_cases

PROPS_FILE = "Props/C03.v"
LEAVES = {
    "string": {"type": "string"}, "integer": {"type": "integer"}, "number": {"type": "number"}, "boolean": {"type": "boolean"},
    "array": {"type": "array", "items": {"type": "string"}}, "object": {"type": "object", "properties": {"k": {"type": "string"}}},
    "map": {"type": "object", "additionalProperties": {"type": "number"}},
    "null": {"type": "null"},
    # constraints that the zero value violates: a null that is turned into a zero instead of nil shows
    "integer-b": {"type": "integer", "minimum": 1, "maximum": 1000}, "number-b": {"type": "number", "minimum": 0.5}, "string-b": {"type": "string", "minLength": 1},
    "integer-s": {"type": "integer", "minimum": -5, "maximum": 100},
}


def systematic():
    out = []
    for name, leaf in LEAVES.items():
        for pos in ("required", "optional", "nullable", "nullable-required", "nullable-definition", "nullable-nested-required", "item", "item2", "definition", "nested", "map-value", "addl-value", "item-ref", "map-ref", "map-ref-nested"):
            if name == "null" and pos in ("nullable", "definition", "map-value", "addl-value", "item-ref", "map-ref", "map-ref-nested", "nested"):
                continue
            if pos.startswith("nullable") and name in ("object", "map", "null"):
                continue
            if pos == "nullable":
                root = {"type": "object", "properties": {"v": dict(leaf, type=[leaf["type"], "null"])}}
            elif pos == "nullable-required":
                root = {"type": "object", "properties": {"v": dict(leaf, type=["null", leaf["type"]])}, "required": ["v"]}
            elif pos == "nullable-definition":
                root = {"type": "object", "properties": {"v": {"$ref": "#/$defs/L"}}, "$defs": {"L": dict(leaf, type=[leaf["type"], "null"])}, "required": ["v"]}
            elif pos == "nullable-nested-required":
                root = {"type": "object", "properties": {"o": {"type": "object", "properties": {"v": dict(leaf, type=[leaf["type"], "null"]), "w": {"type": "string"}},
                                                               "required": ["v"]}}}
            elif pos == "required":
                root = {"type": "object", "properties": {"v": leaf}, "required": ["v"]}
            elif pos == "optional":
                root = {"type": "object", "properties": {"v": leaf}}
            elif pos == "item":
                root = {"type": "object", "properties": {"v": {"type": "array", "items": leaf}}}
            elif pos == "item2":
                root = {"type": "object", "properties": {"v": {"type": "array", "items": {"type": "array", "items": leaf}}}}
            elif pos == "definition":
                root = {"type": "object", "properties": {"v": {"$ref": "#/$defs/L"}}, "$defs": {"L": leaf}}
            elif pos == "nested":
                root = {"type": "object", "properties": {"o": {"type": "object", "properties": {"v": leaf}, "required": ["v"]}}}
            elif pos == "map-value":
                root = {"type": "object", "properties": {"m": {"type": "object", "additionalProperties": leaf}}}
            elif pos == "addl-value":
                if name not in ("string", "number", "boolean"):
                    continue          # integer truncates, object/array are untyped there: recorded findings (D13)
                root = {"type": "object", "properties": {"a": {"type": "string"}}, "additionalProperties": leaf}
            elif pos == "map-ref":
                root = {"type": "object", "properties": {"m": {"type": "object", "additionalProperties": {"$ref": "#/$defs/L"}}}, "$defs": {"L": leaf}}
            elif pos == "map-ref-nested":
                root = {"type": "object", "properties": {"o": {"type": "object", "properties": {"m": {"type": "object", "additionalProperties": {"$ref": "#/definitions/L"}}},
                                                               "required": ["m"]}}, "definitions": {"L": leaf}}
            else:
                root = {"type": "object", "properties": {"v": {"type": "array", "items": {"$ref": "#/$defs/L"}}}, "$defs": {"L": leaf}}
            out.append(root)
    # arrays of null items with and without length limits, nested
    for lim in ({}, {"minItems": 1}, {"maxItems": 2}, {"minItems": 1, "maxItems": 3}):
        out.append({"type": "object", "properties": {"v": dict({"type": "array", "items": {"type": "null"}}, **lim)}})
        out.append({"type": "object", "properties": {"v": dict({"type": "array", "items": dict({"type": "array", "items": {"type": "null"}}, **lim)}, **lim)}, "required": ["v"]})
    return out


CLASSES = {"type", "null-allowed", "valid"}


def run(ctx):
    ctx.proof_step(PROPS_FILE)
    n = 30 if ctx.tier == "quick" else 400
    from vlib.pairwise import pairwise
    from vlib.valuecheck import collide_root
    # types with one Go name and different JSON types (a declaration may be shared only between equal schemas): inline, and as definitions A, B, B'
    coll = [collide_root({"type": "string"}, {"type": "integer"}), collide_root({"type": "integer"}, {"type": "boolean"}, required=True),
            collide_root({"type": "array", "items": {"type": "string"}}, {"type": "array", "items": {"type": "number"}}, key="l")]
    ox = lambda t: {"type": "object", "properties": {"x": {"type": t}}}      # noqa: E731
    for names, tys in ((["FooBar", "Foo_bar", "foo-bar"], ["string", "integer", "integer"]), (["a_b", "aB", "AB", "a-b"], ["boolean", "string", "string", "boolean"])):
        coll.append({"type": "object", "$defs": {n: ox(t) for n, t in zip(names, tys)}, "properties": {"p%d" % i: {"$ref": "#/$defs/" + n} for i, n in enumerate(names)}})
    sysm = systematic() + [r for _, r in pairwise(only={"format", "enum", "default"})] + coll
    cases = build_cases(ctx, len(sysm) + n, None, CLASSES | {"null-not-allowed"}, "c03x", extra_schemas=sysm, docs_per=2 if ctx.tier == "quick" else 3)
    # the integer positions again under --min-sized-ints (another Go type for the same schema)
    from vlib.pairwise import sized_enum
    sysi = [r for r in sysm if "integer" in json.dumps(r) and not sized_enum(r)]
    cases += build_cases(ctx, len(sysi), None, CLASSES | {"null-not-allowed"}, "c03m", extra_schemas=sysi, docs_per=2, minsized=True, fam="min-sized")
    run_cases(ctx, cases, "c03")
    evaluate(ctx, cases, CLASSES, {"type": "invalid", "null-allowed": "valid", "valid": "valid"}, "JSON types")
    from vlib.valuecheck import replay_findings
    from vlib import regress
    regress.search(ctx, {"C03"})          # the shape-agnostic search step (DESIGN.md 12.8)
    replay_findings(ctx)
    ctx.cov["rule"] = ("systematic: 7 leaf kinds x 12 positions (required, optional, nullable, array item at depth 1 and 2, definition, nested object, map value, map of references, "
                       "typed additional property, array of references), each position given one value of every other JSON type, 1.5 for integer, and null; "
                       "random: in-guard schemas of every kind; non-trivial = a mutant; distinct by hash of (schema, document)")
    c = cases[7]
    ctx.sample({"family": c.fam, "schema": c.schema, "doc": c.docs[2]["doc"], "class": c.docs[2]["cls"], "impl": (c.docs[2].get("obs") or {}).get("v")})
