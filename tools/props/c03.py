"""C03 - a value of the wrong JSON type is rejected; null is accepted where allowed."""
import json

from vlib.valuecheck import build_cases, evaluate, replay  # noqa: F401
from vlib.kitchen import run_cases

PROPS_FILE = "Props/C03.v"
LEAVES = {
    "string": {"type": "string"}, "integer": {"type": "integer"}, "number": {"type": "number"}, "boolean": {"type": "boolean"},
    "array": {"type": "array", "items": {"type": "string"}}, "object": {"type": "object", "properties": {"k": {"type": "string"}}},
    "map": {"type": "object", "additionalProperties": {"type": "number"}},
    "null": {"type": "null"},
    # constraints that the zero value violates: a null that is turned into a zero instead of nil shows
    "integer-b": {"type": "integer", "minimum": 1, "maximum": 1000}, "number-b": {"type": "number", "minimum": 0.5}, "string-b": {"type": "string", "minLength": 1},
    "integer-s": {"type": "integer", "minimum": -5, "maximum": 100},
}


def systematic():
    out = []
    for name, leaf in LEAVES.items():
        for pos in ("required", "optional", "nullable", "nullable-required", "nullable-definition", "nullable-nested-required", "item", "item2", "definition", "nested", "map-value", "addl-value", "item-ref", "map-ref", "map-ref-nested"):
            if name == "null" and pos in ("nullable", "definition", "map-value", "addl-value", "item-ref", "map-ref", "map-ref-nested", "nested"):
                continue
            if pos.startswith("nullable") and name in ("object", "map", "null"):
                continue
            if pos == "nullable":
                root = {"type": "object", "properties": {"v": dict(leaf, type=[leaf["type"], "null"])}}
            elif pos == "nullable-required":
                root = {"type": "object", "properties": {"v": dict(leaf, type=["null", leaf["type"]])}, "required": ["v"]}
            elif pos == "nullable-definition":
                root = {"type": "object", "properties": {"v": {"$ref": "#/$defs/L"}}, "$defs": {"L": dict(leaf, type=[leaf["type"], "null"])}, "required": ["v"]}
            elif pos == "nullable-nested-required":
                root = {"type": "object", "properties": {"o": {"type": "object", "properties": {"v": dict(leaf, type=[leaf["type"], "null"]), "w": {"type": "string"}},
                                                               "required": ["v"]}}}
            elif pos == "required":
                root = {"type": "object", "properties": {"v": leaf}, "required": ["v"]}
            elif pos == "optional":
                root = {"type": "object", "properties": {"v": leaf}}
            elif pos == "item":
                root = {"type": "object", "properties": {"v": {"type": "array", "items": leaf}}}
            elif pos == "item2":
                root = {"type": "object", "properties": {"v": {"type": "array", "items": {"type": "array", "items": leaf}}}}
            elif pos == "definition":
                root = {"type": "object", "properties": {"v": {"$ref": "#/$defs/L"}}, "$defs": {"L": leaf}}
            elif pos == "nested":
                root = {"type": "object", "properties": {"o": {"type": "object", "properties": {"v": leaf}, "required": ["v"]}}}
            elif pos == "map-value":
                root = {"type": "object", "properties": {"m": {"type": "object", "additionalProperties": leaf}}}
            elif pos == "addl-value":
                if name not in ("string", "number", "boolean"):
                    continue          # integer truncates, object/array are untyped there: recorded findings (D13)
                root = {"type": "object", "properties": {"a": {"type": "string"}}, "additionalProperties": leaf}
            elif pos == "map-ref":
                root = {"type": "object", "properties": {"m": {"type": "object", "additionalProperties": {"$ref": "#/$defs/L"}}}, "$defs": {"L": leaf}}
            elif pos == "map-ref-nested":
                root = {"type": "object", "properties": {"o": {"type": "object", "properties": {"m": {"type": "object", "additionalProperties": {"$ref": "#/definitions/L"}}},
                                                               "required": ["m"]}}, "definitions": {"L": leaf}}
            else:
                root = {"type": "object", "properties": {"v": {"type": "array", "items": {"$ref": "#/$defs/L"}}}, "$defs": {"L": leaf}}
            out.append(root)
    # arrays of null items with and without length limits, nested
    for lim in ({}, {"minItems": 1}, {"maxItems": 2}, {"minItems": 1, "maxItems": 3}):
        out.append({"type": "object", "properties": {"v": dict({"type": "array", "items": {"type": "null"}}, **lim)}})
        out.append({"type": "object", "properties": {"v": dict({"type": "array", "items": dict({"type": "array", "items": {"type": "null"}}, **lim)}, **lim)}, "required": ["v"]})
    return out


CLASSES = {"type", "null-allowed", "valid"}


def huge_bound_cases():
    """integers whose bound lies beyond every 64-bit type (exponent notation): the position is still an integer - fractions, strings, booleans are rejected,
    integers inside Go's int accepted - with and without --min-sized-ints, at required / optional / item / definition positions"""
    from vlib.kitchen import Case
    out = []
    n = 0
    # (an upper bound beyond int64 is converted with int64() and wraps to the most negative value: recorded finding C05-bound-beyond-int64)
    for leaf in ({"type": "integer", "minimum": -1e20}, {"type": "integer", "exclusiveMinimum": -1.5e19}, {"type": "integer", "minimum": -1e20, "maximum": 100}):
        for pos in ("required", "optional", "item", "definition"):
            if pos == "item":
                root = {"type": "object", "properties": {"v": {"type": "array", "items": leaf}, "count": {"type": "integer", "minimum": 0, "maximum": 100}}}
                w = lambda x: [x]       # noqa: E731
            elif pos == "definition":
                root = {"type": "object", "$defs": {"Big": leaf}, "properties": {"v": {"$ref": "#/$defs/Big"}}, "required": ["v"]}
                w = lambda x: x         # noqa: E731
            else:
                root = {"type": "object", "properties": {"v": leaf, "count": {"type": "integer", "minimum": 0, "maximum": 100}}}
                if pos == "required":
                    root["required"] = ["v"]
                w = lambda x: x         # noqa: E731
            docs = [{"doc": {"v": w(3)}, "cls": "valid", "path": ("v",), "expect": "ACC"}, {"doc": {"v": w(-7)}, "cls": "valid", "path": ("v",), "expect": "ACC"}]
            for bad in (1.5, -0.25, "3", True, [3], {"n": 3}):
                if pos == "item" and isinstance(bad, list):
                    continue
                docs.append({"doc": {"v": w(bad)}, "cls": "type", "path": ("v",), "expect": "REJ"})
            for ms in (False, True):
                out.append(Case("c03hb%d" % n, root, [dict(d) for d in docs], fam="huge-bound/%s/%s" % (pos, "min-sized" if ms else "plain"), minsized=ms))
                n += 1
    return out


def other_keyword_cases():
    """typed objects and arrays that also carry a keyword the generator does not turn into a check (not, if/then, minProperties, propertyNames, patternProperties,
    dependencies, uniqueItems, contains), written so that no document of the family is affected by it: the typed positions keep rejecting other JSON types -
    at a property, behind a reference, as array items and as map values"""
    from vlib.kitchen import Case
    extras = [{"not": {"required": ["zzz"]}}, {"if": {"required": ["zzz"]}, "then": {"required": ["yyy"]}}, {"minProperties": 0, "maxProperties": 99},
              {"propertyNames": {"pattern": ".*"}}, {"patternProperties": {"^zz": {}}}, {"dependencies": {"zzz": {"required": ["yyy"]}}}, {"dependentRequired": {"zzz": ["yyy"]}}]
    out = []
    n = 0
    for ex in extras:
        obj = dict({"type": "object", "properties": {"email": {"type": "string"}, "age": {"type": "integer"}, "tags": dict({"type": "array", "items": {"type": "string"}}, uniqueItems=True)}}, **ex)
        root = {"type": "object", "$defs": {"Contact": obj}, "properties": {"inline": obj, "ref": {"$ref": "#/$defs/Contact"}, "list": {"type": "array", "items": {"$ref": "#/$defs/Contact"}},
                                                                           "map": {"type": "object", "additionalProperties": {"$ref": "#/$defs/Contact"}}}}
        good = {"email": "e", "age": 3, "tags": ["a", "b"]}
        docs = [{"doc": {"inline": good, "ref": good, "list": [good], "map": {"k": good}}, "cls": "valid", "path": (), "expect": "ACC"}]
        for k, bads in (("email", [5, True, ["e"]]), ("age", ["3", 1.5, None if False else {"a": 1}]), ("tags", ["a", [1], {"a": 1}])):
            for b in bads:
                bad = dict(good, **{k: b})
                for place, w in (("inline", lambda v: v), ("ref", lambda v: v), ("list", lambda v: [v]), ("map", lambda v: {"k": v})):
                    docs.append({"doc": {place: w(bad)}, "cls": "type", "path": (place, k), "expect": "REJ"})
        for place in ("inline", "ref"):
            for b in (5, "s", [1], True):
                docs.append({"doc": {place: b}, "cls": "type", "path": (place,), "expect": "REJ"})
        out.append(Case("c03ok%d" % n, root, docs, fam="other-keywords/%s" % sorted(ex)[0]))
        n += 1
    # objects without `properties` whose values are typed by additionalProperties, with keywords beside it (a `required` list, a description,
    # limits on the number of keys): the values keep their type - at a property, two levels down, behind a reference and as array items
    for vi, (vs, goodv, badvs) in enumerate((({"type": "integer"}, 80, ["80", 1.5, True, [80], {"a": 1}]), ({"type": "string"}, "s", [5, False, ["s"]]),
                                              ({"$ref": "#/$defs/Num"}, 1.5, ["1.5", True, [1]]), ({"type": "boolean"}, True, [1, "true"]))):
        for ei, ex in enumerate(({"required": ["http"]}, {"required": ["http", "other"]}, {"minProperties": 1}, {"description": "ports by name"}, {})):
            m = dict({"type": "object", "additionalProperties": vs}, **ex)
            root = {"type": "object", "$defs": {"Num": {"type": "number"}, "Ports": m},
                    "properties": {"ports": m, "deep": {"type": "object", "properties": {"inner": m}}, "ref": {"$ref": "#/$defs/Ports"}, "list": {"type": "array", "items": m}}}
            gm = {"http": goodv, "other": goodv}
            docs = [{"doc": {"ports": gm, "deep": {"inner": gm}, "ref": gm, "list": [gm]}, "cls": "valid", "path": (), "expect": "ACC"}]
            for bv in badvs:
                for key in ("http", "zzz"):
                    bm = dict(gm, **{key: bv})
                    for place, w in (("ports", lambda v: v), ("deep", lambda v: {"inner": v}), ("ref", lambda v: v), ("list", lambda v: [v])):
                        docs.append({"doc": {place: w(bm)}, "cls": "type", "path": (place, key), "expect": "REJ"})
            out.append(Case("c03mp%d" % n, root, docs, fam="other-keywords/typed-map-with-%s" % (sorted(ex)[0] if ex else "nothing")))
            n += 1
    return out


def nullable_composites():
    """allOf / anyOf groups whose members are nullable objects (both spellings of the type list, one to three members, inline and as a definition): every
    typed property below the group still rejects a value of another JSON type"""
    from vlib.kitchen import Case
    b1 = {"properties": {"zip": {"type": "integer"}, "fragile": {"type": "boolean"}}}
    b2 = {"properties": {"street": {"type": "string"}, "tags": {"type": "array", "items": {"type": "string"}}}}
    b3 = {"properties": {"weight": {"type": "number"}}}
    good = {"zip": 5, "fragile": True, "street": "s", "tags": ["a"], "weight": 1.5}
    bad = {"zip": ["x", 1.5, True], "fragile": [1, "true"], "street": [5, False], "tags": [[1], "a", {"a": 1}], "weight": ["1", True]}
    out = []
    n = 0
    for comb in ("allOf", "anyOf"):
        for tl in (["object", "null"], "object", ["object"]):
            for brs in ([b1], [b1, b2], [b1, b2, b3]):
                for place in ("inline", "item"):        # a composite-only definition behind a $ref is the recorded finding C11-untyped-composite-ref
                    grp = {comb: [dict(b, type=tl) for b in brs]}
                    keys = [k for b in brs for k in b["properties"]]
                    w = (lambda v: [v]) if place == "item" else (lambda v: v)
                    if place == "inline":
                        root = {"type": "object", "properties": {"shipping": grp}}
                    elif place == "definition":
                        root = {"type": "object", "properties": {"shipping": {"$ref": "#/$defs/Ship"}}, "$defs": {"Ship": grp}}
                    else:
                        root = {"type": "object", "properties": {"shipping": {"type": "array", "items": grp}}}
                    docs = [{"doc": {"shipping": w({k: good[k] for k in keys})}, "cls": "valid", "path": (), "expect": "ACC"}]
                    for k in keys:
                        for v in bad[k]:
                            docs.append({"doc": {"shipping": w(dict({x: good[x] for x in keys}, **{k: v}))}, "cls": "type", "path": ("shipping", k), "expect": "REJ"})
                    out.append(Case("c03nc%d" % n, root, docs, fam="nullable-composite/%s/%s/%d/%s" % (comb, json.dumps(tl), len(brs), place)))
                    n += 1
    return out


def run(ctx):
    ctx.proof_step(PROPS_FILE)
    n = 30 if ctx.tier == "quick" else 400
    from vlib.pairwise import pairwise
    from vlib.valuecheck import collide_root
    # types with one Go name and different JSON types (a declaration may be shared only between equal schemas): inline, and as definitions A, B, B'
    coll = [collide_root({"type": "string"}, {"type": "integer"}), collide_root({"type": "integer"}, {"type": "boolean"}, required=True),
            collide_root({"type": "array", "items": {"type": "string"}}, {"type": "array", "items": {"type": "number"}}, key="l")]
    ox = lambda t: {"type": "object", "properties": {"x": {"type": t}}}      # noqa: E731
    for names, tys in ((["FooBar", "Foo_bar", "foo-bar"], ["string", "integer", "integer"]), (["a_b", "aB", "AB", "a-b"], ["boolean", "string", "string", "boolean"])):
        coll.append({"type": "object", "$defs": {n: ox(t) for n, t in zip(names, tys)}, "properties": {"p%d" % i: {"$ref": "#/$defs/" + n} for i, n in enumerate(names)}})
    sysm = systematic() + [r for _, r in pairwise(only={"format", "enum", "default"})] + coll
    cases = build_cases(ctx, len(sysm) + n, None, CLASSES | {"null-not-allowed"}, "c03x", extra_schemas=sysm, docs_per=2 if ctx.tier == "quick" else 3)
    # the integer positions again under --min-sized-ints (another Go type for the same schema)
    from vlib.pairwise import sized_enum
    sysi = [r for r in sysm if "integer" in json.dumps(r) and not sized_enum(r)]
    cases += build_cases(ctx, len(sysi), None, CLASSES | {"null-not-allowed"}, "c03m", extra_schemas=sysi, docs_per=2, minsized=True, fam="min-sized")
    from vlib.lookalike import lookalike_cases
    nc = nullable_composites() + huge_bound_cases() + other_keyword_cases() + lookalike_cases("c03", "type")
    run_cases(ctx, cases + nc, "c03")
    evaluate(ctx, cases, CLASSES, {"type": "invalid", "null-allowed": "valid", "valid": "valid"}, "JSON types")
    nnc = 0
    for c in nc:
        if not c.build_ok:
            if nnc < 3:
                ctx.violation("oracle", dict(c.replay_obj(), gen_err=c.gen_err, build_err=c.build_err), "%s: generation failed or does not build: %s" % (c.fam, (c.gen_err or c.build_err)[:300]))
            nnc += 1
            continue
        ctx.cov["programs"] += 1
        for di, d in enumerate(c.docs):
            o = d.get("obs") or {}
            ctx.count({"f": c.fam, "d": d["doc"]}, d["cls"] == "type", c.fam.split("/")[0])
            if o.get("v") != d["expect"] and nnc < 3:
                ctx.violation("oracle", c.replay_obj(di), "%s: document %s is %s under the schema but the generated code answers %s" % (
                    c.fam, json.dumps(d["doc"]), "valid" if d["expect"] == "ACC" else "invalid (a value of another JSON type at %s)" % "/".join(map(str, d["path"])), o.get("v")))
                nnc += 1
                break
    from vlib.valuecheck import report_tie
    report_tie(ctx, nc, "JSON types")
    from vlib.valuecheck import replay_findings
    from vlib import regress
    regress.search(ctx, {"C03"})          # the shape-agnostic search step (DESIGN.md 12.8)
    replay_findings(ctx)
    ctx.cov["rule"] = ("systematic: 7 leaf kinds x 12 positions (required, optional, nullable, array item at depth 1 and 2, definition, nested object, map value, map of references, "
                       "typed additional property, array of references), each position given one value of every other JSON type, 1.5 for integer, and null; "
                       "random: in-guard schemas of every kind; non-trivial = a mutant; distinct by hash of (schema, document)")
    c = cases[7]
    ctx.sample({"family": c.fam, "schema": c.schema, "doc": c.docs[2]["doc"], "class": c.docs[2]["cls"], "impl": (c.docs[2].get("obs") or {}).get("v")})
