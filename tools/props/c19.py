"""C19 - generated unmarshalers are total and all-or-nothing."""
import json

from vlib.valuecheck import build_cases, evaluate, replay, replay_findings  # noqa: F401
from vlib.kitchen import run_cases, Docs, types_of, defs_of

PROPS_FILE = "Props/C19.v"
RAW = ["", "{", "[1,", '{"a":', "nul", "\x00", '{"a":1}}', "[[[[[[[[[[", '"unterminated', "{\"a\":1,}", "01", "--1", "tru", '{"a" 1}', "\xff\xfe"]
SHAPES = [None, True, 0, 1, -1, 1.5, "", "x", [], [1], [[]], [None], {}, {"a": None}, {"zz": {"y": [1, {"z": None}]}}]
# partially acceptable content: a well-typed member next to a wrongly typed one (a decoder that writes as it goes leaves traces)
MIXED = [{"cpu": 2, "mem": "lots"}, {"cpu": "lots", "mem": 2}, {"a": "x", "b": {"c": 1}}, [1, "x"], ["x", 1], {"a": 1, "b": [1], "c": "s", "d": True}]
PRIORS = ['{"disk": 9}', '{"a": "kept"}', '["kept"]']


from vlib.valuecheck import typed_addl_null  # noqa: E402


def has_typed_addl(s):
    if isinstance(s, dict):
        ap = s.get("additionalProperties")
        if isinstance(ap, dict) and s.get("properties") and types_of(ap):
            return True
        return any(has_typed_addl(v) for v in s.values())
    if isinstance(s, list):
        return any(has_typed_addl(v) for v in s)
    return False


NG_LEAVES = [({"type": "integer", "multipleOf": 2.5}, 5), ({"type": "integer", "multipleOf": 12.5}, 25), ({"type": "integer", "multipleOf": 3}, 6), ({"type": "number", "multipleOf": 0.5}, 1.5),
             ({"type": "integer", "minimum": 1}, 2), ({"type": "integer", "exclusiveMaximum": 10, "exclusiveMinimum": 0}, 5), ({"type": "number", "maximum": 1.5}, 1),
             ({"type": "string", "minLength": 1, "maxLength": 3}, "ab"), ({"type": "string", "pattern": "^a"}, "ab"), ({"type": "array", "items": {"type": "string"}, "minItems": 1, "maxItems": 2}, ["a"]),
             ({"type": "string", "format": "date"}, "2024-01-02"), ({"type": "string", "enum": ["a", "b"]}, "a"), ({"type": "integer", "enum": [1, 2]}, 1),
             ({"type": "object", "properties": {"q": {"type": "string"}}, "required": ["q"]}, {"q": "x"})]


def nil_guard_cases():
    """every kind of check on a field that may be nil - optional, nullable and required, nullable and optional - against documents that leave the key out, give
    null for it, or are null themselves; through both decoders and with --min-sized-ints for the integer leaves (integers with a fractional multipleOf included:
    only totality is judged here)"""
    from vlib.kitchen import Case
    out = []
    n = 0
    for leaf, good in NG_LEAVES:
        for nullab in ("optional", "nullable-required", "nullable-optional", "nullable-first"):
            lf = dict(leaf)
            if nullab != "optional":
                if "enum" in lf or lf["type"] == "object" or "format" in lf:
                    continue          # (a nullable format does not compile: recorded finding C01-nullable-format-import)
                lf["type"] = ["null", lf["type"]] if nullab == "nullable-first" else [lf["type"], "null"]
            root = {"type": "object", "properties": {"k": {"type": "string"}, "v": lf, "w": dict(lf)}}
            if nullab in ("nullable-required", "nullable-first"):
                root["required"] = ["v"]
            docs = [{"doc": {}, "cls": "absent", "path": ()}, {"doc": {"v": None}, "cls": "null", "path": ()}, {"doc": None, "cls": "null-document", "path": ()},
                    {"doc": {"v": good, "w": None}, "cls": "valid", "path": ()}, {"doc": {"k": "x", "w": good}, "cls": "other-key", "path": ()},
                    {"doc": {"v": None}, "cls": "null+prior", "path": (), "prior": json.dumps({"v": good, "k": "kept"})}]
            frac = leaf.get("type") == "integer" and isinstance(leaf.get("multipleOf"), float)
            for wire in ("json", "yaml"):
                for ms in ((False, True) if leaf.get("type") == "integer" and "enum" not in leaf else (False,)):
                    out.append(Case("c19ng%d" % n, root, [dict(d) for d in docs], fam="nil-guards/%s/%s" % (nullab, wire), extra_imports=True, wire=wire, minsized=ms,
                                    no_model=frac or wire == "yaml"))
                    n += 1
    return out


def other_keyword_cases():
    """keywords of JSON Schema that the generator does not turn into checks today (uniqueItems, contains, minProperties, propertyNames, const, not,
    if/then, dependencies, patternProperties ...), on element types of every shape: whatever the generator does with them, the methods stay total"""
    from vlib.kitchen import Case
    items = [{"type": "array", "items": {"type": "integer"}}, {"type": "object", "properties": {"k": {"type": "array", "items": {"type": "string"}}}}, {},
             {"type": "object", "additionalProperties": {"type": "integer"}}, {"type": "string"}, {"type": "number"}, {"type": ["string", "null"]}]
    vals = [[[1, 2], [3, 4]], [{"k": ["a"]}, {"k": ["a"]}], [{"a": 1}, [1], "s", 1, None], [{"a": 1}, {"a": 1}], ["a", "a"], [1.5, 1.5], ["a", None, "a"]]
    out = []
    n = 0
    for it, v in zip(items, vals):
        for extra in ({"uniqueItems": True}, {"uniqueItems": True, "minItems": 1, "maxItems": 1000}, {"contains": it}, {"uniqueItems": False}):
            arr = dict({"type": "array", "items": it}, **extra)
            root = {"type": "object", "properties": {"points": arr, "opt": dict(arr)}, "required": ["points"]}
            docs = [{"doc": {"points": v}, "cls": "values", "path": ()}, {"doc": {"points": v[:1]}, "cls": "values", "path": ()}, {"doc": {"points": []}, "cls": "empty", "path": ()},
                    {"doc": {"points": None}, "cls": "null", "path": ()}, {"doc": {"points": v, "opt": v}, "cls": "values", "path": ()}, {"doc": None, "cls": "null-document", "path": ()},
                    {"doc": {"points": v}, "cls": "values+prior", "path": (), "prior": json.dumps({"points": v[:1]})}]
            for wire in ("json", "yaml"):
                out.append(Case("c19ok%d" % n, root, [dict(d) for d in docs], fam="other-keywords/array/%s" % wire, extra_imports=True, wire=wire, no_model=True))
                n += 1
    obj = {"type": "object", "properties": {"a": {"type": "string"}, "b": {"type": "integer"}}}
    for extra in ({"minProperties": 1}, {"maxProperties": 1}, {"propertyNames": {"pattern": "^[a-z]$"}}, {"patternProperties": {"^x": {"type": "integer"}}},
                  {"dependencies": {"a": {"required": ["b"]}}}, {"not": {"required": ["a"]}}, {"if": {"required": ["a"]}, "then": {"required": ["b"]}}, {"const": {"a": "x"}},
                  {"oneOf": [{"required": ["a"]}, {"required": ["b"]}]}, {"dependentRequired": {"a": ["b"]}}):
        sc = dict(obj, **extra)
        root = {"type": "object", "properties": {"o": sc, "l": {"type": "array", "items": sc}}}
        docs = [{"doc": {"o": {}}, "cls": "values", "path": ()}, {"doc": {"o": {"a": "x"}}, "cls": "values", "path": ()}, {"doc": {"o": {"a": "x", "b": 1, "x1": 2}}, "cls": "values", "path": ()},
                {"doc": {"o": None, "l": [None, {}]}, "cls": "null", "path": ()}, {"doc": {"l": [{"a": "x"}, {"b": 2}]}, "cls": "values", "path": ()}, {"doc": None, "cls": "null-document", "path": ()}]
        for wire in ("json", "yaml"):
            out.append(Case("c19ok%d" % n, root, [dict(d) for d in docs], fam="other-keywords/object/%s" % wire, extra_imports=True, wire=wire, no_model=True))
            n += 1
    return out


def run(ctx):
    ctx.proof_step(PROPS_FILE)
    n = 40 if ctx.tier == "quick" else 500
    cases = build_cases(ctx, n, None, None, "c19x", docs_per=2, max_docs=60)
    for c in cases:
        prior = None
        for d in c.docs:
            if d["cls"] == "valid":
                prior = json.dumps(d["doc"])
                break
        extra = []
        for v in SHAPES:
            extra.append({"doc": v, "cls": "shape", "path": ()})
        for r in RAW:
            extra.append({"doc": None, "raw": r, "cls": "malformed", "path": ()})
        # every document also against a previously decoded destination
        withprior = []
        if prior:
            for d in (c.docs + extra)[::3]:
                e = dict(d)
                e["prior"] = prior
                e["cls"] = d["cls"] + "+prior"
                withprior.append(e)
        # every other generated type (definitions, nested structs) on the basic shapes
        c.docs = c.docs + extra + withprior
    run_cases(ctx, cases, "c19")
    # second pass: the non-root types of every program
    cases2 = []
    from vlib.kitchen import Case
    for c in cases:
        if not c.build_ok:
            continue
        tnames = sorted(set(t["name"] for sc in c.scan.values() for t in sc["types"] if t["name"] != "Root"))[:6]
        if not tnames:
            continue
        docs = []
        for t in tnames:
            for v in SHAPES[:12]:
                docs.append({"doc": v, "cls": "shape-" + "inner", "path": (), "t": t})
            for r in RAW[:5]:
                docs.append({"doc": None, "raw": r, "cls": "malformed-inner", "path": (), "t": t})
            for v in MIXED:
                docs.append({"doc": v, "cls": "mixed-inner", "path": (), "t": t})
                for pr in PRIORS:
                    docs.append({"doc": v, "cls": "mixed-inner+prior", "path": (), "t": t, "prior": pr})
        cc = Case(c.cid + "i", c.schema, docs, fam="inner-types")
        cases2.append(cc)
    # composites whose branches are maps / arrays / scalars-in-objects: the branch types get methods of their own
    comp = {"type": "object", "properties": {
        # (without additionalProperties: false in the object branch the output does not compile: finding C01-anyof-typed-map-branch-imports)
        "limits": {"anyOf": [{"type": "object", "additionalProperties": {"type": "integer"}}, {"type": "object", "properties": {"preset": {"type": "string"}}, "required": ["preset"], "additionalProperties": False}]},
        "labels": {"anyOf": [{"type": "object", "additionalProperties": {"type": "string"}}, {"type": "object", "properties": {"n": {"type": "integer", "minimum": 1}}, "required": ["n"], "additionalProperties": False}]},
        "both": {"allOf": [{"type": "object", "properties": {"a": {"type": "string"}}, "required": ["a"]}, {"type": "object", "properties": {"b": {"type": "integer"}}}]}}}
    for wire in ("json", "yaml"):
        docs = [{"doc": {"limits": {"cpu": 2}, "labels": {"n": 2}, "both": {"a": "x"}}, "cls": "valid", "path": ()}]
        cases2.append(Case("c19cm" + wire, comp, docs, fam="composite-branches/" + wire, extra_imports=True, wire=wire, no_model=True))
    # types and fields named like the identifiers the method templates use (Plain, plain, raw, value, err, j), through both decoders
    tn = {"type": "object",
          "$defs": {"Plain": {"type": "object", "properties": {"text": {"type": "string", "minLength": 2}}, "required": ["text"]},
                    "Raw": {"type": "object", "properties": {"raw": {"type": "integer", "minimum": 1}, "plain": {"type": "string"}}, "required": ["raw"]},
                    "Plain_0": {"type": "string", "minLength": 1}, "Value": {"type": "object", "properties": {"value": {"type": "number", "maximum": 5}, "err": {"type": "string"}}, "required": ["value"]}},
          "properties": {"plain": {"$ref": "#/$defs/Plain"}, "raw": {"$ref": "#/$defs/Raw"}, "p0": {"$ref": "#/$defs/Plain_0"}, "value": {"$ref": "#/$defs/Value"},
                         "err": {"type": "integer"}, "j": {"type": "boolean"}},
          "required": ["plain"]}
    for wire in ("json", "yaml"):
        docs = [{"doc": {"plain": {"text": "hello"}, "raw": {"raw": 2, "plain": "x"}, "p0": "s", "value": {"value": 1.5}, "err": 3, "j": True}, "cls": "valid", "path": ()},
                {"doc": {"plain": {"text": "h"}}, "cls": "string", "path": ()}, {"doc": {"plain": {"text": [1, 2]}}, "cls": "type", "path": ()}, {"doc": {"plain": {}}, "cls": "required", "path": ()}]
        for t, good in (("Plain", {"text": "hello"}), ("Raw", {"raw": 3}), ("Value", {"value": 2})):
            docs.append({"doc": good, "cls": "valid-inner", "path": (), "t": t})
            for v in SHAPES[:12]:
                docs.append({"doc": v, "cls": "shape-inner", "path": (), "t": t})
        for v in SHAPES:
            docs.append({"doc": v, "cls": "shape", "path": ()})
        cases2.append(Case("c19tn" + wire, tn, docs, fam="template-names/" + wire, extra_imports=True, wire=wire, no_model=True))
    cases2 += nil_guard_cases() + other_keyword_cases()
    run_cases(ctx, cases2, "c19i")
    # the inner types of the composite cases (known only after generation)
    cases3 = []
    for c in cases2:
        if not c.fam.startswith("composite-branches") or not c.build_ok:
            continue
        tnames = sorted(set(t["name"] for sc in c.scan.values() for t in sc["types"] if t["name"] != "Root"))[:10]
        docs = []
        for t in tnames:
            for v in SHAPES[:12] + MIXED:
                docs.append({"doc": v, "cls": "inner", "path": (), "t": t})
                for pr in PRIORS[:2]:
                    docs.append({"doc": v, "cls": "inner+prior", "path": (), "t": t, "prior": pr})
        cases3.append(Case(c.cid + "i", c.schema, docs, fam=c.fam + "/inner", extra_imports=True, wire=c.wire, no_model=True))
    run_cases(ctx, cases3, "c19j")
    cases2 = cases2 + cases3
    nv = 0
    allc = cases + cases2
    stats = {"REJ": 0, "ACC": 0, "PANIC": 0, "rej_with_prior": 0, "programs_wf": 0, "programs_not_wf": 0}
    for c in allc:
        if c.wf is True:
            stats["programs_wf"] += 1
        elif c.wf is False:
            stats["programs_not_wf"] += 1
            # WfP.wf_ty is the hypothesis of C19_total; the only generated shape outside it is the additional-properties block
            # after a typed map (recorded finding C19-typed-addl-null); anything else outside it is no longer covered by the theorem
            if not has_typed_addl(c.schema) and nv == 0:
                ctx.violation("tie", dict(c.replay_obj(), correspondence="RunCore.case_wf (hypothesis wf_ty of theorem C19_total)"),
                              "the type generated for this schema is outside the well-formedness hypothesis of C19_total", no_input=True)
                nv += 1
        if not c.build_ok:
            ctx.violation("oracle", dict(c.replay_obj(), build_err=c.build_err), "emitted code does not compile: %s" % c.build_err[:300])
            nv += 1
            continue
        ctx.cov["programs"] += 1
        for di, d in enumerate(c.docs):
            o = d.get("obs")
            if o is None:
                continue
            ctx.count({"s": c.schema, "d": d.get("raw", d["doc"]), "p": d.get("prior"), "t": d.get("t")}, True, "totality/" + c.fam)
            v = o["v"]
            stats[v if v in stats else "PANIC"] += 1
            if v in ("PANIC", "FATAL"):
                if "raw" not in d and d.get("t", "Root") == "Root" and typed_addl_null(c, d["doc"]):
                    continue          # recorded finding C19-typed-addl-null
                if d.get("t", "Root") != "Root" and d["doc"] is None:
                    # the same finding on an inner type: null given to a struct with typed additionalProperties
                    t = [x for sc in c.scan.values() for x in sc["types"] if x["name"] == d["t"]]
                    if t and any(f["name"] == "AdditionalProperties" and f["type"].startswith("map[") and f["type"] != "map[string]interface{}" for f in t[0].get("fields", [])):
                        continue
                if c.wf and not c.mismatches:
                    d["wf_contradiction"] = True   # C19_total says the model cannot crash here: the model no longer describes the code
                if nv < 6:
                    ctx.violation("oracle", c.replay_obj(di), "generated unmarshaler of %s panicked on %r (prior %s): %s"
                                  % (d.get("t", "Root"), d.get("raw", json.dumps(d["doc"]))[:200], d.get("prior"), o.get("err", "")[:200]))
                nv += 1
            elif v == "REJ":
                # all-or-nothing is a statement about the generated methods: a type without one is decoded by encoding/json itself
                meths = set(m[0].lstrip("*") for sc in c.scan.values() for m in sc["methods"] if m[1] == "UnmarshalJSON")
                if d.get("t", "Root") not in meths:
                    continue
                if d.get("prior"):
                    stats["rej_with_prior"] += 1
                if not o.get("unchanged", False):
                    if nv < 6:
                        ctx.violation("oracle", c.replay_obj(di), "unmarshaler of %s returned an error on %r but modified the destination (prior %s)"
                                      % (d.get("t", "Root"), d.get("raw", json.dumps(d["doc"]))[:200], d.get("prior")))
                    nv += 1
        for di, code in c.mismatches:
            if code != 5 and nv == 0 and di is not None and not typed_addl_null(c, c.docs[di]["doc"]):
                ctx.violation("tie", dict(c.replay_obj(di), correspondence="RunCore.case_mismatches"), "implementation differs from the model on %s"
                              % json.dumps(c.docs[di]["doc"])[:200], no_input=True)
                nv += 1
    ctx.cov["outcomes"] = stats
    ctx.cov["disagreements_checked"] += sum(len(c.docs) for c in allc)
    from vlib import regress
    regress.search(ctx, {"C19"})          # the shape-agnostic search step (DESIGN.md 12.8)
    regress.wide_total(ctx)
    replay_findings(ctx)
    ctx.cov["rule"] = ("random in-guard schemas over every kind; per program: schema-directed valid documents and all their single-fault mutants (wrong types, nulls, missing keys, "
                       "bound/length/pattern/enum faults), 15 JSON shapes (null, scalars, arrays, nested objects), 15 malformed byte strings, a third of all of them again on a "
                       "destination that already holds a decoded valid value; every non-root generated type on the shapes and malformed inputs; recover() around each call and a "
                       "deep comparison of the destination before/after; non-trivial = every case; distinct by hash of (schema, type, bytes, prior)")
    c = cases[1]
    ctx.sample({"family": c.fam, "schema": c.schema, "doc": c.docs[-1].get("raw", c.docs[-1]["doc"]), "prior": c.docs[-1].get("prior"), "impl": (c.docs[-1].get("obs") or {})})
