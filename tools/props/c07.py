"""C07 - array length limits are enforced at every nesting level."""
import itertools
import json

from vlib.valuecheck import build_cases, evaluate, replay, collide_root  # noqa: F401
from vlib.kitchen import run_cases

PROPS_FILE = "Props/C07.v"


def systematic():
    out = []
    k = 0
    for depth, lim, pos in itertools.product([1, 2, 3], [(0, 0), (1, 0), (2, 0), (0, 1), (0, 3), (1, 2), (2, 2), (3, 5)],
                                             ["required", "optional", "nullable", "nested", "item-object"]):
        mn, mx = lim
        it = [{"type": "integer"}, {"type": "string"}, {"type": "boolean"}][k % 3]
        k += 1
        s = it
        for _ in range(depth):
            s = {"type": "array", "items": s}
            if mn:
                s["minItems"] = mn
            if mx:
                s["maxItems"] = mx
        if pos == "required":
            root = {"type": "object", "properties": {"a": s}, "required": ["a"]}
        elif pos == "optional":
            root = {"type": "object", "properties": {"a": s}}
        elif pos == "nullable":
            root = {"type": "object", "properties": {"a": dict(s, type=["array", "null"])}}
        elif pos == "nested":
            root = {"type": "object", "properties": {"o": {"type": "object", "properties": {"a": s}}}}
        else:
            root = {"type": "object", "properties": {"l": {"type": "array", "items": {"type": "object", "properties": {"a": s}, "required": ["a"]}}}}
        out.append(root)
    # inline types whose Go names collide and that differ only in their limits
    arr = lambda mn, mx, it="string": dict({"type": "array", "items": {"type": it}}, **({"minItems": mn} if mn else {}), **({"maxItems": mx} if mx else {}))   # noqa: E731
    for (a, b) in (((2, 3), (4, 6)), ((0, 2), (0, 4)), ((1, 0), (3, 0)), ((0, 0), (2, 2))):
        out.append(collide_root(arr(*a), arr(*b), key="tags"))
        out.append(collide_root(arr(*b), arr(*a), key="tags", required=True))
    # one array property constrained by two branches of a composite (the limits of both apply)
    for a, b in (({"minItems": 2}, {"maxItems": 4}), ({"maxItems": 3}, {"minItems": 1})):      # (both branches setting one keyword: finding C11-first-wins-scalar)
        br = lambda lim: {"type": "object", "properties": {"tags": dict({"type": "array", "items": {"type": "string"}}, **lim)}}      # noqa: E731
        out.append({"type": "object", "properties": {"combo": {"allOf": [br(a), br(b)]}}, "required": ["combo"]})
    return out


CLASSES = {"items", "items-valid", "optional-absent", "null-allowed", "valid"}


def null_and_deep_cases():
    """a null array is never length-checked (required or not, nullable or not); arrays nested three levels deep, the same limits at every level, with inner
    arrays longer than the outer one"""
    from vlib.kitchen import Case
    out = []
    arr = {"type": "array", "items": {"type": "string"}, "minItems": 2, "maxItems": 4}
    for ni, (req, tl) in enumerate(((True, "array"), (False, "array"), (True, ["array", "null"]), (False, ["null", "array"]))):
        root = {"type": "object", "properties": {"tracks": dict(arr, type=tl), "aliases": dict(arr)}}
        if req:
            root["required"] = ["tracks"]
        docs = [{"doc": {"tracks": None}, "cls": "null-allowed", "path": ("tracks",), "expect": "ACC"}, {"doc": {"tracks": None, "aliases": None}, "cls": "null-allowed", "path": ("tracks",), "expect": "ACC"},
                {"doc": {"tracks": ["a", "b"]}, "cls": "items-valid", "path": ("tracks",), "expect": "ACC"}, {"doc": {"tracks": ["a"]}, "cls": "items", "path": ("tracks",), "expect": "REJ"},
                {"doc": {"tracks": ["a", "b"], "aliases": ["a", "b", "c", "d", "e"]}, "cls": "items", "path": ("aliases",), "expect": "REJ"}]
        for wire in ("json", "yaml"):
            out.append(Case("c07nl%d%s" % (ni, wire), root, [dict(d) for d in docs], fam="null-arrays/%s" % wire, extra_imports=True, wire=wire, no_model=True))
    for li, lim in enumerate(({"minItems": 1, "maxItems": 4}, {"maxItems": 3}, {"minItems": 2})):
        cube = dict({"type": "array", "items": dict({"type": "array", "items": dict({"type": "array", "items": {"type": "integer"}}, **lim)}, **lim)}, **lim)
        root = {"type": "object", "properties": {"cube": cube}, "required": ["cube"]}
        mn, mx = lim.get("minItems", 0), lim.get("maxItems", 99)
        ok = lambda n: mn <= n <= mx        # noqa: E731
        docs = []
        for a, b, c in ((1, 3, 1), (1, 2, 3), (2, 2, 2), (3, 1, 4), (1, 4, 5), (1, 5, 1), (5, 1, 1), (2, 3, 4), (1, 1, 1), (4, 4, 4), (2, 1, 2), (3, 3, 0)):
            v = [[[7] * c for _ in range(b)] for _ in range(a)]
            good = ok(a) and ok(b) and ok(c)
            docs.append({"doc": {"cube": v}, "cls": "items-valid" if good else "items", "path": ("cube",), "expect": "ACC" if good else "REJ"})
        out.append(Case("c07dp%d" % li, root, docs, fam="depth-3/%s" % json.dumps(lim), no_model=True))
    return out


def contradictory_cases():
    """limits that leave no admissible length (minItems > maxItems): every present array is invalid, whatever its length; absent and (where allowed) null still pass"""
    from vlib.kitchen import Case
    out = []
    n = 0
    for mn, mx in ((4, 2), (3, 1), (2, 1), (5, 3)):
        arr = {"type": "array", "items": {"type": "string"}, "minItems": mn, "maxItems": mx}
        nested = {"type": "array", "items": dict(arr), "minItems": mn, "maxItems": mx}
        root = {"type": "object", "properties": {"req": arr, "opt": dict(arr), "nul": dict(arr, type=["array", "null"]), "deep": nested,
                                                 "ok": {"type": "array", "items": {"type": "string"}, "minItems": 1, "maxItems": mn}}, "required": ["req"]}
        docs = []
        for ln in range(0, mn + 2):
            v = ["x"] * ln
            docs.append({"doc": {"req": v}, "cls": "items", "path": ("req",), "expect": "REJ"})
            docs.append({"doc": {"req": ["x"] * (mn + 3), "opt": v}, "cls": "items", "path": ("opt",), "expect": "REJ"})
        for ln in range(mx, mn + 1):
            v = ["x"] * ln
            docs.append({"doc": {"opt": v}, "cls": "required", "path": ("req",), "expect": "REJ"})
            docs.append({"doc": {"nul": v, "ok": ["a"]}, "cls": "required", "path": ("req",), "expect": "REJ"})
        out.append(Case("c07ct%d" % n, root, docs, fam="contradictory-limits/%d>%d" % (mn, mx)))
        n += 1
        # without the required array: every key on its own
        root2 = {"type": "object", "properties": {"opt": dict(arr), "nul": dict(arr, type=["array", "null"]), "deep": nested}}
        docs2 = [{"doc": {}, "cls": "optional-absent", "path": (), "expect": "ACC"}, {"doc": {"nul": None}, "cls": "null-allowed", "path": ("nul",), "expect": "ACC"}]
        for ln in range(0, mn + 2):
            v = ["x"] * ln
            docs2.append({"doc": {"opt": v}, "cls": "items", "path": ("opt",), "expect": "REJ"})
            docs2.append({"doc": {"nul": v}, "cls": "items", "path": ("nul",), "expect": "REJ"})
            docs2.append({"doc": {"deep": [v] * max(ln, 1)}, "cls": "items", "path": ("deep",), "expect": "REJ"})
        out.append(Case("c07ct%d" % n, root2, docs2, fam="contradictory-limits/%d>%d" % (mn, mx)))
        n += 1
    return out


def format_item_cases():
    """arrays whose items are strings with a format decoded by the runtime helper types (time, date, date-time, ipv4): the length limits apply to the
    array, and every element the helper type accepts - fractional seconds included - is an element"""
    from vlib.kitchen import Case
    out = []
    for i, (fmt, good, bad) in enumerate((("time", ["09:00:00", "12:30:00.250", "23:59:59.999999999", "00:00:00"], ["25:00:00", "noon"]),
                                          ("date", ["2024-02-29", "0987-06-05", "9999-12-31"], ["2023-02-29", "yesterday"]),
                                          ("date-time", ["2024-01-02T03:04:05Z", "2024-01-02T03:04:05.678+02:00"], ["2024-01-02"]),
                                          ("ipv4", ["10.0.0.1", "255.255.255.255"], ["256.1.1.1"]))):
        root = {"type": "object", "properties": {"slots": {"type": "array", "items": {"type": "string", "format": fmt}, "minItems": 1, "maxItems": 3}, "one": {"type": "string", "format": fmt}}}
        docs = [{"doc": {"slots": good[:k]}, "cls": "items-valid" if 1 <= k <= 3 else "items", "path": ("slots",), "expect": "ACC" if 1 <= k <= 3 else "REJ"} for k in range(0, min(len(good), 4) + 1)]
        docs.append({"doc": {"slots": [good[0]] * 4}, "cls": "items", "path": ("slots",), "expect": "REJ"})
        for g in good:
            docs.append({"doc": {"slots": [good[0], g]}, "cls": "items-valid", "path": ("slots", 1), "expect": "ACC"})
            docs.append({"doc": {"one": g}, "cls": "valid", "path": ("one",), "expect": "ACC"})
        for b in bad:
            docs.append({"doc": {"slots": [good[0], b]}, "cls": "format", "path": ("slots", 1), "expect": "REJ"})
        out.append(Case("c07fi%d" % i, root, docs, fam="format-items/" + fmt, no_model=True))
    return out


def run(ctx):
    ctx.proof_step(PROPS_FILE)
    sysm = systematic()
    if ctx.tier == "quick":
        sysm = sysm[::2] + sysm[-10:]
    from vlib.pairwise import pairwise
    sysm = sysm + [r for _, r in pairwise(types=["array"])]
    n = 20 if ctx.tier == "quick" else 300
    cases = build_cases(ctx, len(sysm) + n, ["array"], CLASSES | {"type"}, "c07x", extra_schemas=sysm, docs_per=2 if ctx.tier == "quick" else 4)
    from vlib.overlay import overlay_cases
    cases = cases + overlay_cases("items", "c07")
    ct = contradictory_cases() + null_and_deep_cases()
    from vlib.overlay import sibling_group_cases
    from vlib.valuecheck import expect_cases
    sg = sibling_group_cases("items", "c07") + format_item_cases()
    run_cases(ctx, cases + ct + sg, "c07")
    expect_cases(ctx, sg, "array limits")
    nct = 0
    for c in ct:
        if not c.build_ok:
            if nct < 3:
                ctx.violation("oracle", dict(c.replay_obj(), gen_err=c.gen_err, build_err=c.build_err), "%s: generation failed or does not build: %s" % (c.fam, (c.gen_err or c.build_err)[:300]))
            nct += 1
            continue
        ctx.cov["programs"] += 1
        for di, d in enumerate(c.docs):
            o = d.get("obs") or {}
            ctx.count({"f": c.fam, "d": d["doc"]}, d["expect"] == "REJ", "contradictory-limits")
            if o.get("v") != d["expect"] and nct < 3:
                ctx.violation("oracle", c.replay_obj(di), "%s: document %s should be %s (no length satisfies both limits), the generated code answers %s" % (
                    c.fam, json.dumps(d["doc"]), d["expect"], o.get("v")))
                nct += 1
                break
    from vlib.valuecheck import report_tie
    report_tie(ctx, ct, "array limits")
    evaluate(ctx, cases, CLASSES, {"items": "invalid", "items-valid": "valid", "optional-absent": "by-spec", "null-allowed": "valid", "valid": "valid"},
             "array limits")
    from vlib.valuecheck import replay_findings
    from vlib import regress
    regress.search(ctx, {"C07"})          # the shape-agnostic search step (DESIGN.md 12.8)
    replay_findings(ctx)
    ctx.cov["rule"] = ("systematic: nesting depth 1-3 x 8 (minItems, maxItems) shapes (the same limits at every level: guard of C07) x 5 positions; for every array "
                       "occurrence of 2-4 valid documents, arrays of length min-1, min, max, max+1 at that level; random: array-focused in-guard schemas; "
                       "non-trivial = a mutant; distinct by hash of (schema, document)")
    c = cases[9]
    ctx.sample({"family": c.fam, "schema": c.schema, "doc": c.docs[1]["doc"], "class": c.docs[1]["cls"], "impl": (c.docs[1].get("obs") or {}).get("v")})
