"""C18 - the tool fails loudly and cleanly: never panics, never half-succeeds."""
import copy
import json

from vlib.clirun import Run, run_all
from vlib.schemagen import SchemaGen

PROPS_FILE = "Props/C18.v"

BAD = [
    ("unknown-type", {"type": "foo"}),
    ("missing-definition", {"$ref": "#/$defs/NoSuchDefinition"}),
    ("missing-definition-legacy", {"$ref": "#/definitions/Zmissing"}),
    ("missing-file", {"$ref": "no_such_file.json"}),
    ("missing-file-definition", {"$ref": "no_such_file.json#/$defs/X"}),
    ("empty-enum", {"enum": []}),
    ("empty-enum-typed", {"type": "string", "enum": []}),
    ("non-primitive-enum", {"enum": [[1, 2], "b"]}),
    ("non-primitive-enum-object", {"enum": [{"a": 1}]}),
    ("integer-enum-non-number", {"type": "integer", "enum": ["x"]}),
    # the ungeneratable member after a null / after members of one type (once two members differ in type the generator stops looking and emits the
    # list as it is - such a list IS generated, correctly, and is not an ungeneratable element)
    ("non-primitive-enum-after-null", {"enum": [None, {"level": 1}]}),
    ("non-primitive-enum-last-of-many", {"enum": [1, 2, 3, 4, 5, 6, 7, [8]]}),
    # faults the schema decoder itself must report (wrong JSON type for a keyword)
    ("decode-minLength-string", {"type": "string", "minLength": "3"}),
    ("decode-type-number", {"type": 5}),
    ("decode-required-string", {"type": "object", "properties": {"label": {"type": "string"}}, "required": "label"}),
    ("decode-properties-array", {"type": "object", "properties": []}),
    ("decode-items-number", {"type": "array", "items": 5}),
    ("null-subschema-in-composite", {"allOf": [None, {"type": "object"}]}),
]

FIXED_BASES = [
    {"type": "object", "properties": {"a": {"type": "string"}, "n": {"type": "object", "properties": {"b": {"type": "integer"}}}}},
    {"type": "object", "properties": {"l": {"type": "array", "items": {"type": "string"}}, "g": {"type": "array", "items": {"type": "array", "items": {"type": "number"}}}}},
    {"type": "object", "$defs": {"D": {"type": "object", "properties": {"x": {"type": "string"}}}, "E": {"type": "string"}},
     "properties": {"r": {"$ref": "#/$defs/D"}}},
    {"type": "object", "properties": {"u": {"allOf": [{"type": "object", "properties": {"p": {"type": "string"}}},
                                                    {"type": "object", "properties": {"q": {"type": "integer"}}, "required": ["q"]}]}}},
    {"type": "object", "properties": {"v": {"anyOf": [{"type": "object", "properties": {"p": {"type": "string"}}, "required": ["p"]},
                                                    {"type": "object", "properties": {"q": {"type": "integer"}}, "required": ["q"]}]}}},
    {"type": "object", "$defs": {"A": {"type": "object", "properties": {"s": {"type": "string"}}, "required": ["s"]}},
     "properties": {"w": {"allOf": [{"$ref": "#/$defs/A"}, {"type": "object", "properties": {"t": {"type": "boolean"}}}]}}},
    # the legacy spelling of the definitions keyword (decoded by a second pass of the schema decoder), referenced and unreferenced
    {"type": "object", "definitions": {"Tag": {"type": "object", "properties": {"label": {"type": "string", "minLength": 1}}, "required": ["label"]}, "Unused": {"type": "string"}},
     "properties": {"tags": {"type": "array", "items": {"$ref": "#/definitions/Tag"}}, "n": {"type": "integer"}}},
    # composites nested through inline object branches that share referenced branches (the generator visits the inner one more than once, with cycle bookkeeping)
    {"type": "object", "$defs": {"Text": {"type": "object", "properties": {"text": {"type": "string"}}, "required": ["text"]},
                                 "Image": {"type": "object", "properties": {"url": {"type": "string"}}, "required": ["url"]}},
     "properties": {"block": {"anyOf": [{"$ref": "#/$defs/Text"}, {"$ref": "#/$defs/Image"},
                                        {"type": "object", "properties": {"child": {"anyOf": [{"$ref": "#/$defs/Text"}, {"$ref": "#/$defs/Image"},
                                                                                                {"type": "object", "properties": {"level": {"type": "integer"}, "note": {"type": "string"}}}]}}}]}}},
    {"type": "object", "$defs": {"Node": {"type": "object", "properties": {"next": {"$ref": "#/$defs/Node"}, "v": {"type": "integer"}}},
                                 "Leaf": {"type": "object", "properties": {"w": {"type": "string"}}, "required": ["w"]}},
     "properties": {"tree": {"anyOf": [{"$ref": "#/$defs/Node"}, {"$ref": "#/$defs/Leaf"}, {"type": "object", "properties": {"deep": {"type": "object", "properties": {"x": {"type": "number"}}}}}]},
                    "both": {"allOf": [{"$ref": "#/$defs/Leaf"}, {"type": "object", "properties": {"inner": {"allOf": [{"$ref": "#/$defs/Leaf"}, {"type": "object", "properties": {"y": {"type": "boolean"}}}]}}}]}}},
    {"type": "object", "properties": {"m": {"type": "object", "additionalProperties": {"type": "string"}}, "o": {"type": "object", "properties": {"k": {"type": "integer"}},
                                                                                                              "additionalProperties": {"type": "string"}}}},
]


def positions(s, path=(), top=True):
    """JSON paths of the sub-schemas at property / item / definition positions whose ancestors are typed objects and arrays,
    top-level definitions or allOf/anyOf branches (the guard G18)"""
    out = []
    if not isinstance(s, dict):
        return out
    t = s.get("type")
    typed_obj = t == "object" or (isinstance(t, list) and "object" in t and len(t) <= 2)
    if top:
        for key in ("$defs", "definitions"):
            for k, v in s.get(key, {}).items():
                out.append(path + (key, k))
                out += positions(v, path + (key, k), False)
    if "enum" in s or "$ref" in s:
        return out
    if typed_obj or (top and t == "object"):
        for k, v in s.get("properties", {}).items():
            out.append(path + ("properties", k))
            out += positions(v, path + ("properties", k), False)
        ap = s.get("additionalProperties")
        if isinstance(ap, dict) and not s.get("properties"):
            out.append(path + ("additionalProperties",))
    if t == "array" or (isinstance(t, list) and "array" in t and len(t) <= 2):
        if isinstance(s.get("items"), dict):
            out.append(path + ("items",))
            out += positions(s["items"], path + ("items",), False)
    for key in ("allOf", "anyOf"):
        for i, b in enumerate(s.get(key, [])):
            if isinstance(b, dict) and "$ref" not in b:
                out += positions(b, path + (key, i), False)
    return out


def put(s, path, v):
    d = copy.deepcopy(s)
    cur = d
    for p in path[:-1]:
        cur = cur[p]
    cur[path[-1]] = v
    return d


def check_fail(ctx, r, what, case):
    """the run must have failed cleanly"""
    pb = None
    if r.timed_out:
        pb = "the tool did not terminate"
    elif r.panicked:
        pb = "the tool panicked"
    elif r.status == 0:
        pb = "exit status 0"
    elif not r.stderr.strip():
        pb = "no diagnostic on stderr"
    elif r.stdout:
        pb = "wrote to stdout although it failed"
    elif r.created or r.modified or r.created_dirs:
        pb = "created or modified files or directories although it failed: %s" % sorted(list(r.created) + list(r.modified) + list(r.created_dirs))
    if pb:
        ctx.violation("oracle", dict(case, run=r.describe()), "%s: %s" % (what, pb))
    return pb


def run(ctx):
    ctx.proof_step(PROPS_FILE)
    rng = ctx.rng
    bases = list(FIXED_BASES)
    g = SchemaGen(rng, depth=2)
    for _ in range(6 if ctx.tier == "quick" else 60):
        bases.append(g.root())
    runs, meta = [], []
    n = 0
    for bi, base in enumerate(bases):
        pos = positions(base)
        for pi, path in enumerate(pos):
            kinds = BAD if ctx.tier == "thorough" or bi < len(FIXED_BASES) else [BAD[(pi + k) % len(BAD)] for k in range(3)]
            for name, bad in kinds:
                sc = put(base, path, bad)
                for mode in ("file", "stdout"):
                    if mode == "stdout" and (pi + len(name)) % 3:
                        continue
                    n += 1
                    files = {"in/s.json": json.dumps(sc), "out/gen.go": "ORIGINAL\n", "out/other.txt": "keep\n"}
                    argv = ["-p", "pkg", "in/s.json"] + (["-o", "out/gen.go"] if mode == "file" else [])
                    runs.append(Run("i%d" % n, files, argv))
                    meta.append(("injection", name, path, sc, mode))
    # unparsable / hostile file contents
    raw = [b'{"type": "object", "properties": {"a": null}}', b'{"type": "object", "definitions": {"a": null}}',
           b'{"$defs": {"A": {"type": "object", "properties": {"p": {"$ref": "#/$defs/Z"}}}, "Z": null}, "type": "object"}',
           b'{"type": "object", "properties": {"p": {"$ref": "#/definitions/z"}, "l": {"type": "array", "items": {"$ref": "#/definitions/z"}}}, "definitions": {"z": null}}', b'{"type": "object", "properties": {"o": {"anyOf": [{"type": "object"}, null]}}}', b"", b"{", b"[1,2", b"{\"type\": \"object\",}", b"nul", b"\x00\x01\x02", b"{\"type\": \"object\"}}", b"[]", b"\"str\"", b"42", b"null",
           b"{\"properties\": 5}", b"{\"type\": {\"a\": 1}}", b"{\"$defs\": []}", b"{\"required\": \"x\"}", b"{\"enum\": 5}", b"\xff\xfe{}", b"{" * 2000]
    yraw = [b"a: [1, 2", b"\t- x", b"key: : :", b"- a\nb: c", b"%YAML 9.9\n---\n", b"a: &x [*x]", b"? [\n", b"\x00"]
    for i, b in enumerate(raw):
        runs.append(Run("g%d" % i, {"in/s.json": b, "out/gen.go": "ORIGINAL\n"}, ["-p", "pkg", "-o", "out/gen.go", "in/s.json"]))
        meta.append(("garbage-json", "raw", (), b.decode("latin-1")[:60], "file"))
    for i, b in enumerate(yraw):
        runs.append(Run("y%d" % i, {"in/s.yaml": b, "out/gen.go": "ORIGINAL\n"}, ["-p", "pkg", "-o", "out/gen.go", "in/s.yaml"]))
        meta.append(("garbage-yaml", "raw", (), b.decode("latin-1")[:60], "file"))
    good = json.dumps(FIXED_BASES[0])
    flagcases = [
        (["-p", "pkg", "--schema-package", "noequals", "in/s.json"], "flag without ="),
        (["-p", "pkg", "--schema-output", "noequals", "in/s.json"], "flag without ="),
        (["-p", "pkg", "--schema-root-type", "noequals", "in/s.json"], "flag without ="),
        (["in/s.json"], "no package"),
        (["-p", "pkg"], "no arguments"),
        (["-p", "pkg", "--no-such-flag", "in/s.json"], "unknown flag"),
        (["-p", "pkg", "in/missing.json"], "missing file"),
        (["-p", "pkg", "in"], "directory as input"),
        (["-p", "pkg", "-o", "out/gen.go", "in/s.json", "in/missing.json"], "second file missing"),
        (["-p", "pkg", "--tags"], "flag without value"),
        (["-p", "", "in/s.json"], "empty package"),
    ]
    # list-valued flags with empty or blank elements: not necessarily malformed - either outcome is fine, as long as it is a clean one
    oddflags = [
        (["-p", "pkg", "--yaml-extension", "yml,", "in/s.json"], "list flag with an empty element"),
        (["-p", "pkg", "--yaml-extension", "yml,,yaml", "in/s.json"], "list flag with an empty element"),
        (["-p", "pkg", "--yaml-extension", ",", "in/s.json"], "list flag with an empty element"),
        (["-p", "pkg", "--yaml-extension", " ", "in/s.json"], "list flag with a blank element"),
        (["-p", "pkg", "--resolve-extension", "json,", "in/s.json"], "list flag with an empty element"),
        (["-p", "pkg", "--resolve-extension", " ,", "in/s.json"], "list flag with a blank element"),
        (["-p", "pkg", "--tags", "json,,yaml", "in/s.json"], "list flag with an empty element"),
        (["-p", "pkg", "--capitalization", ",ID,", "in/s.json"], "list flag with an empty element"),
    ]
    for i, (argv, what) in enumerate(oddflags):
        runs.append(Run("of%d" % i, {"in/s.json": good}, argv))
        meta.append(("odd-flags", what, (), argv, "stdout"))
    for i, (argv, what) in enumerate(flagcases):
        runs.append(Run("f%d" % i, {"in/s.json": good, "out/gen.go": "ORIGINAL\n"}, argv))
        meta.append(("flags", what, (), argv, "file"))
    # several input files: one ungeneratable schema anywhere in the argument list fails the whole run
    import itertools
    g1 = json.dumps(FIXED_BASES[0])
    g2 = json.dumps(FIXED_BASES[1])
    bads = {"badtype.json": json.dumps(put(FIXED_BASES[0], ("properties", "a"), {"type": "strng"})),
            "badref.json": json.dumps(put(FIXED_BASES[1], ("properties", "l", "items"), {"$ref": "#/$defs/Nope"})),
            "garbage.json": "{\"type\": "}
    k = 0
    for badname, badtext in bads.items():
        for seq in (["good1.json", badname], [badname, "good1.json"], ["good1.json", badname, "good2.json"], [badname, "good1.json", "good2.json"],
                    ["good1.json", "good2.json", badname], [badname, badname]):
            for mode in ("file", "stdout"):
                k += 1
                files = {"in/good1.json": g1, "in/good2.json": g2, "in/" + badname: badtext, "out/gen.go": "ORIGINAL\n"}
                argv = ["-p", "pkg"] + (["-o", "out/gen.go"] if mode == "file" else []) + ["in/" + x for x in seq]
                runs.append(Run("m%d" % k, files, argv))
                meta.append(("multi-input", "%s in %s" % (badname, seq), (), seq, mode))
                if mode == "file" and k % 3 == 0:
                    # the same failing run towards output paths that do not exist yet: nothing may be left behind, not even an empty file or directory
                    k += 1
                    files2 = {"in/good1.json": g1, "in/good2.json": g2, "in/" + badname: badtext}
                    argv2 = ["-p", "pkg", "-o", "fresh/dir/gen.go", "--schema-output", "http://x/none=fresh2/other.go", "--schema-package", "http://x/none=example.com/none"] + ["in/" + x for x in seq]
                    runs.append(Run("m%d" % k, files2, argv2))
                    meta.append(("multi-input", "%s in %s, fresh output paths" % (badname, seq), (), seq, mode))
    # two inputs whose root types get the same name (same base name in two directories): the later one is still walked, its faults still fail the run
    okitem = json.dumps({"type": "object", "properties": {"a": {"type": "string"}}})
    for bi, badtext in enumerate([json.dumps({"type": "object", "definitions": {"Tag": {"type": "lenght"}}, "properties": {"b": {"type": "integer"}}}),
                                  json.dumps({"type": "object", "$defs": {"Tag": {"$ref": "#/$defs/Missing"}}, "properties": {"b": {"type": "integer"}}})]):
        # (a fault in the later root's own properties goes unnoticed because that root is not generated at all: finding C18-same-root-name-root-not-visited)
        for seq in (["v1/item.json", "v2/item.json"], ["v2/item.json", "v1/item.json"], ["v1/item.json", "other.json", "v2/item.json"]):
            for mode in ("file", "stdout"):
                k += 1
                files = {"in/v1/item.json": okitem, "in/v2/item.json": badtext, "in/other.json": g2, "out/gen.go": "ORIGINAL\n"}
                argv = ["-p", "pkg"] + (["-o", "out/gen.go"] if mode == "file" else []) + ["in/" + x for x in seq]
                runs.append(Run("n%d" % k, files, argv))
                meta.append(("multi-input", "same root name, bad v2 (%d) in %s" % (bi, seq), (), seq, mode))
    # runs that must succeed completely
    succ = []
    for bi, base in enumerate(bases):
        runs.append(Run("s%d" % bi, {"in/s.json": json.dumps(base)}, ["-p", "pkg", "-o", "out/deep/dir/gen.go", "in/s.json"]))
        meta.append(("success", "file", (), base, "file"))
        runs.append(Run("t%d" % bi, {"in/s.json": json.dumps(base)}, ["-p", "pkg", "in/s.json"]))
        meta.append(("success", "stdout", (), base, "stdout"))
    # the repaired defects stay repaired, the recorded ones are replayed (findings step below)
    run_all(ctx, runs)
    nv = 0
    stats = {}
    for r, (fam, name, path, sc, mode) in zip(runs, meta):
        ctx.count({"fam": fam, "name": name, "path": path, "sc": sc, "mode": mode}, True, fam)
        st = stats.setdefault(fam, {"runs": 0, "status0": 0, "nonzero": 0})
        st["runs"] += 1
        st["status0" if r.status == 0 else "nonzero"] += 1
        if nv >= 8:
            continue
        case = {"kind": "cli", "family": fam, "what": name, "position": list(path), "files": {k: (v if isinstance(v, str) else v.decode("latin-1")) for k, v in r.files.items()},
                "argv": r.argv}
        if fam == "odd-flags":
            pb = None
            if r.timed_out or r.panicked:
                pb = "the tool panicked or hung"
            elif r.status == 0 and not r.stdout.startswith(b"// Code generated"):
                pb = "status 0 without the generated file on stdout"
            elif r.status != 0 and (r.stdout or r.created or not r.stderr.strip()):
                pb = "status %s with output on stdout / files created / no diagnostic" % r.status
            if pb:
                ctx.violation("oracle", dict(case, run=r.describe()), "%s (%s): %s" % (name, " ".join(r.argv), pb))
                nv += 1
            continue
        if fam in ("injection", "garbage-json", "garbage-yaml", "flags", "multi-input"):
            if fam == "garbage-json" and r.status == 0:
                # a JSON value that is not an object: accepted by the decoder as "no schema": the property asks for a clean outcome either way
                if r.timed_out or r.panicked:
                    check_fail(ctx, r, "%s (%s)" % (fam, name), case)
                    nv += 1
                continue
            if check_fail(ctx, r, "%s: %s at %s" % (fam, name, "/".join(map(str, path)) or sc), case):
                nv += 1
        else:
            pb = None
            if r.timed_out or r.panicked:
                pb = "the tool panicked or hung on a valid schema"
            elif r.status != 0:
                pb = "a valid in-guard schema was refused: %s" % r.stderr.decode("utf-8", "replace")[:200]
            elif mode == "file" and sorted(r.created) != ["out/deep/dir/gen.go"]:
                pb = "status 0 but the output files are %s" % sorted(r.created)
            elif mode == "stdout" and (not r.stdout.startswith(b"// Code generated") or r.created):
                pb = "status 0 but stdout does not hold the generated file (or files were created: %s)" % sorted(r.created)
            if pb:
                ctx.violation("oracle", dict(case, run=r.describe()), "success run: %s" % pb)
                nv += 1
    ctx.cov["families"].update({k: dict(ctx.cov["families"].get(k, {}), **v) for k, v in stats.items()})
    ctx.cov["programs"] = len(runs)
    ctx.cov["disagreements_checked"] = len(runs)
    replay_findings(ctx)
    from vlib import regress
    regress.wide_injection(ctx)          # the shape-agnostic search step (DESIGN.md 12.8)
    ctx.cov["rule"] = ("injection: 7 fixed + random in-guard schemas, every property / item / definition / allOf-anyOf-branch-property position (guard G18: typed ancestors), "
                       "each given one of 10 ungeneratable elements (unknown type, missing definition in both spellings, missing file, empty enum typed/untyped, non-primitive enum, "
                       "non-number in an integer enum), with -o FILE (pre-existing output) and with stdout; garbage: 18 byte strings as .json, 8 as .yaml; flags: 11 malformed "
                       "invocations; multi-input: a bad file (unknown type, missing definition, truncated JSON) at every position among good files, to a file and to stdout; success: every base schema to a file in a new directory and to stdout; each run is a separate process under a timeout; "
                       "observables: exit status, stdout, stderr, directory before/after; non-trivial = every run; distinct by hash")
    r = runs[3]
    ctx.sample({"family": meta[3][0], "what": meta[3][1], "position": list(meta[3][2]), "argv": r.argv, "status": r.status, "stderr": r.stderr.decode("utf-8", "replace")[:200]})


def replay_findings(ctx):
    todo = [f for f in ctx.findings() if f.get("witness", {}).get("kind") == "cli"]
    if not todo:
        return
    runs = [Run("kf%d" % i, f["witness"]["files"], f["witness"]["argv"]) for i, f in enumerate(todo)]
    run_all(ctx, runs)
    for f, r in zip(todo, runs):
        exp = f["witness"]["expect"]
        if exp == "clean-failure":
            fails = r.status == 0 or r.panicked or r.timed_out or bool(r.stdout) or bool(r.created) or bool(r.modified) or not r.stderr.strip()
        elif exp == "no-panic":
            fails = r.panicked or r.timed_out
        elif exp == "output":
            fails = r.status == 0 and not r.stdout and not r.created
        else:
            fails = False
        ctx.known(f, bool(fails), "status %s, stdout %d bytes, stderr %r" % (r.status, len(r.stdout), r.stderr.decode("utf-8", "replace")[:120]))


def replay(ctx, path):
    obj = json.load(open(path))
    case = obj.get("case", obj.get("witness", {}))
    r = Run("rp", case["files"], case["argv"])
    run_all(ctx, [r])
    print(json.dumps(r.describe(), indent=1)[:4000])
