"""C11 - allOf is conjunction and anyOf is disjunction for object schemas."""
import copy
import itertools
import json

from vlib.valuecheck import evaluate, replay, replay_findings  # noqa: F401
from vlib.kitchen import run_cases, Case

PROPS_FILE = "Props/C11.v"

LEAVES = [
    ({"type": "string", "minLength": 2}, "ab", ["a", 5]),
    ({"type": "integer", "minimum": 1, "maximum": 9}, 5, [0, 10, "x"]),
    ({"type": "number", "exclusiveMinimum": 0}, 0.5, [0, "y"]),
    ({"type": "boolean"}, True, ["no"]),
    ({"type": "string", "pattern": "^a"}, "abc", ["b"]),
    ({"type": "array", "items": {"type": "integer"}, "minItems": 1}, [1], [[], "z"]),
    ({"type": "string", "enum": ["on", "off"]}, "on", ["maybe"]),
]


def branch(i, nreq=1, nopt=1, shared=None):
    props, req, good, bads = {}, [], {}, []
    for j in range(nreq + nopt):
        leaf, ok, bad = LEAVES[(i * 2 + j) % len(LEAVES)]
        k = "b%dk%d" % (i, j)
        props[k] = copy.deepcopy(leaf)
        good[k] = ok
        for b in bad:
            bads.append((k, b))
        if j < nreq:
            req.append(k)
    if shared:
        props["s"] = shared
    b = {"type": "object", "properties": props}
    if req:
        b["required"] = req
    return b, good, bads, req


def allof_cases(ctx):
    out = []
    k = 0
    for n, form, overlap in itertools.product([1, 2, 3, 4], ["inline", "ref", "mixed", "inline-untyped-first", "ref-untyped-first", "inline-untyped-last"], [False, True]):
        if overlap and n == 1:
            continue
        if "untyped" in form and n == 1:
            continue
        brs = []
        for i in range(n):
            shared = None
            if overlap:
                shared = [{"type": "integer", "minimum": 0}, {"type": "integer", "maximum": 10}, {"type": "integer", "multipleOf": 2}, {"type": "integer"}][i % 4]
            brs.append(branch(i, 1, 1, shared))
        defs = {}
        lst = []
        for i, (b, _, _, _) in enumerate(brs):
            if (form.endswith("untyped-first") and i == 0) or (form.endswith("untyped-last") and i == n - 1):
                b.pop("type", None)          # a shared base written without "type": "object"
            if form.startswith("ref") or (form == "mixed" and i % 2 == 0):
                defs["Br%d" % i] = b
                lst.append({"$ref": "#/$defs/Br%d" % i})
            else:
                lst.append(b)
        for pos in ("property", "nested-property", "array-item"):
            # a composite used as a *definition* is outside the guard: untyped it is read as anything through a reference
            # (C11-untyped-composite-ref), with "type": "object" its method is emitted twice (C01-composite-definition-twice)
            if pos == "property":
                root = {"type": "object", "properties": {"u": {"allOf": lst}}, "required": ["u"]}
            elif pos == "nested-property":
                root = {"type": "object", "properties": {"o": {"type": "object", "properties": {"u": {"allOf": lst}}, "required": ["u"]}}, "required": ["o"]}
            else:
                root = {"type": "object", "properties": {"l": {"type": "array", "items": {"allOf": lst}, "minItems": 1}}, "required": ["l"]}
            defs_here = defs
            if defs_here:
                root["$defs"] = defs_here
            full = {}
            for _, good, _, _ in brs:
                full.update(good)
            if overlap:
                full["s"] = 4
            docs = [{"doc": {"u": full}, "cls": "all-branches", "path": ("u",)}]
            for i, (_, good, bads, req) in enumerate(brs):
                for key in req:
                    d = copy.deepcopy(full)
                    del d[key]
                    docs.append({"doc": {"u": d}, "cls": "branch-required", "path": ("u", key), "branch": i})
                for key, bad in bads:
                    d = copy.deepcopy(full)
                    d[key] = bad
                    docs.append({"doc": {"u": d}, "cls": "branch-constraint", "path": ("u", key), "branch": i})
                opt = [kk for kk in good if kk not in req]
                for key in opt:
                    d = copy.deepcopy(full)
                    del d[key]
                    docs.append({"doc": {"u": d}, "cls": "optional-absent", "path": ("u", key), "branch": i})
            if overlap:
                for v in (-1, 11, 3, 0, 10):
                    d = copy.deepcopy(full)
                    d["s"] = v
                    docs.append({"doc": {"u": d}, "cls": "shared-property", "path": ("u", "s")})
            for d in docs:
                inner = d["doc"]["u"]
                if pos == "nested-property":
                    d["doc"] = {"o": {"u": inner}}
                    d["path"] = ("o",) + d["path"]
                elif pos == "array-item":
                    d["doc"] = {"l": [inner]}
                    d["path"] = ("l", 0) + d["path"][1:]
            k += 1
            out.append(Case("c11a%d" % k, root, docs, fam="allOf/%s/%s/%d%s" % (form, pos, n, "/overlap" if overlap else "")))
    return out


def nested_cases():
    """composites nested inside a branch of a composite, sharing a referenced branch with the enclosing one ("an entity and its child both extend Base")"""
    out = []
    base = {"type": "object", "properties": {"id": {"type": "string", "minLength": 2}}, "required": ["id"]}
    other = {"type": "object", "properties": {"tag": {"type": "integer", "minimum": 1}}, "required": ["tag"]}
    k = 0
    for inner_ref, twice in (("Base", False), ("Other", False), ("Base", True)):
        inner = [{"$ref": "#/$defs/" + inner_ref}, {"type": "object", "properties": {"name": {"type": "string"}}, "required": ["name"]}]
        if twice:
            inner = [{"$ref": "#/$defs/Base"}, {"$ref": "#/$defs/Other"}, inner[1]]
        outer = [{"$ref": "#/$defs/Base"}, {"type": "object", "properties": {"child": {"allOf": inner}}, "required": ["child"]}]
        root = {"type": "object", "$defs": {"Base": base, "Other": other}, "properties": {"u": {"allOf": outer}}, "required": ["u"]}
        good_child = {"name": "n"}
        if inner_ref == "Base" or twice:
            good_child["id"] = "cd"
        if inner_ref == "Other" or twice:
            good_child["tag"] = 3
        docs = [{"doc": {"u": {"id": "ab", "child": good_child}}, "cls": "all-branches", "path": ("u",)}]
        for key in list(good_child):
            c = dict(good_child)
            del c[key]
            docs.append({"doc": {"u": {"id": "ab", "child": c}}, "cls": "inner-branch-required", "path": ("u", "child", key)})
        bad = dict(good_child)
        if "id" in bad:
            bad["id"] = "c"
            docs.append({"doc": {"u": {"id": "ab", "child": bad}}, "cls": "inner-branch-constraint", "path": ("u", "child", "id")})
        docs.append({"doc": {"u": {"child": good_child}}, "cls": "branch-required", "path": ("u", "id")})
        docs.append({"doc": {"u": {"id": "ab"}}, "cls": "branch-required", "path": ("u", "child")})
        docs.append({"doc": {"u": {"id": "ab", "child": 5}}, "cls": "branch-constraint", "path": ("u", "child")})
        k += 1
        out.append(Case("c11n%d" % k, root, docs, fam="allOf/nested-shared-ref/%s%s" % (inner_ref, "+twice" if twice else "")))
    return out


def extra_forms():
    """branches that carry only `required`; a nullable object branch written null-first; one array property constrained by two branches"""
    out = []
    base = {"type": "object", "properties": {"id": {"type": "string", "minLength": 1}, "label": {"type": "string"}, "size": {"type": "integer"}}, "required": ["id"]}

    def wrap(comb, lst, defs=None):
        r = {"type": "object", "properties": {"u": {comb: lst}, "l": {"type": "array", "items": {comb: lst}}}, "required": ["u"]}
        if defs:
            r["$defs"] = defs
        return r

    def docs_of(goods, bads):
        ds = [{"doc": {"u": g}, "cls": "all-branches", "path": ("u",)} for g in goods] + [{"doc": {"u": b}, "cls": "branch-violated", "path": ("u",)} for b in bads]
        ds += [{"doc": {"u": goods[0], "l": [goods[0], b]}, "cls": "branch-violated-item", "path": ("l", 1)} for b in bads]
        return ds
    k = 0
    for lst, defs, goods, bads, tag in (
        ([{"$ref": "#/$defs/Base"}, {"required": ["label"]}], {"Base": base}, [{"id": "1", "label": "x"}], [{"id": "1"}, {"label": "x"}, {}], "required-only-branch"),
        ([{"$ref": "#/$defs/Base"}, {"required": ["label", "size"]}, {"type": "object", "properties": {"extra": {"type": "boolean"}}}], {"Base": base},
         [{"id": "1", "label": "x", "size": 2}], [{"id": "1", "label": "x"}, {"id": "1", "size": 2}], "required-only-branch-3"),
        ([{"type": ["null", "object"], "properties": {"x": {"type": "integer", "minimum": 1}}, "required": ["x"]}, {"type": "object", "properties": {"y": {"type": "string", "minLength": 2}}}], None,
         [{"x": 1, "y": "ab"}, {"x": 2}], [{}, {"y": "ab"}, {"x": 0, "y": "ab"}, {"x": 1, "y": "a"}], "nullable-object-first"),
        ([{"type": "object", "properties": {"tags": {"type": "array", "items": {"type": "string"}, "minItems": 2}}}, {"type": "object", "properties": {"tags": {"type": "array", "items": {"type": "string"}, "maxItems": 4}}}], None,
         [{"tags": ["a", "b"]}, {"tags": ["a", "b", "c", "d"]}, {}], [{"tags": ["a"]}, {"tags": ["a", "b", "c", "d", "e"]}], "shared-array-property"),
        # a member with properties of its own that requires a key declared by ANOTHER member (before / after its own key), by reference and inline
        ([{"$ref": "#/$defs/Identified"}, {"$ref": "#/$defs/Contact"}], {"Identified": {"type": "object", "properties": {"id": {"type": "string"}, "email": {"type": "string"}}, "required": ["id"]},
                                                                         "Contact": {"type": "object", "properties": {"phone": {"type": "string"}}, "required": ["email", "phone"]}},
         [{"id": "1", "email": "e", "phone": "2"}], [{"id": "1", "phone": "2"}, {"id": "1", "email": "e"}, {"email": "e", "phone": "2"}], "cross-member-required/ref"),
        ([{"type": "object", "properties": {"id": {"type": "string"}, "email": {"type": "string"}}, "required": ["id"]},
          {"type": "object", "properties": {"phone": {"type": "string"}}, "required": ["phone", "email"]}], None,
         [{"id": "1", "email": "e", "phone": "2"}], [{"id": "1", "phone": "2"}, {"id": "1", "email": "e"}, {"email": "e", "phone": "2"}], "cross-member-required/inline"),
        ([{"type": "object", "properties": {"phone": {"type": "string"}}, "required": ["email"]},
          {"type": "object", "properties": {"id": {"type": "string"}, "email": {"type": "string"}}}], None,
         [{"email": "e"}, {"id": "1", "email": "e", "phone": "2"}], [{"id": "1", "phone": "2"}, {}], "cross-member-required/requirer-first"),
    ):
        k += 1
        out.append(Case("c11x%d" % k, wrap("allOf", lst, defs), docs_of(goods, bads), fam="allOf/" + tag))
    anyl = [{"type": ["null", "object"], "properties": {"x": {"type": "integer", "minimum": 1}}, "required": ["x"]}, {"type": "object", "properties": {"y": {"type": "string", "minLength": 2}}, "required": ["y"]}]
    sh0 = {"type": "object", "properties": {"id": {"type": "string"}, "kind": {"type": "string"}}, "required": ["id"]}
    sh1 = {"type": "object", "properties": {"id": {"type": "string", "minLength": 8}, "token": {"type": "string"}}, "required": ["id", "token"]}
    sh2 = {"type": "object", "properties": {"id": {"type": "string", "maxLength": 1}, "n": {"type": "integer"}}, "required": ["n"]}
    for oi, lst in enumerate(([sh0, sh1], [sh1, sh0], [sh0, sh2, sh1])):
        out.append(Case("c11xo%d" % oi, wrap("anyOf", lst), docs_of([{"id": "ab"}, {"id": "abcdefgh", "token": "t"}], [{"kind": "k"}, {"token": "t"}, {}]), fam="anyOf/shared-property"))
    out.append(Case("c11x99", wrap("anyOf", anyl), docs_of([{"x": 1}, {"y": "ab"}], [{}, {"x": 0}, {"y": "a"}]), fam="anyOf/nullable-object-first"))
    # the same shared-property groups where the generator meets them by another road than a property: as a definition of their own (no `type`
    # beside the anyOf), as the items of an array definition, as the values of a map - a document that satisfies the first member only is accepted
    # (what a composite-only definition rejects is the recorded finding C11-untyped-composite-ref: only the accepted side is judged there)
    for oi, lst in enumerate(([sh0, sh1], [sh1, sh0], [sh0, sh2, sh1])):
        goods, bads = [{"id": "ab"}, {"id": "abcdefgh", "token": "t"}], [{"kind": "k"}, {"token": "t"}, {}]
        root = {"type": "object", "$defs": {"Contact": {"anyOf": lst}, "Contacts": {"type": "array", "items": {"anyOf": lst}}},
                "properties": {"c": {"$ref": "#/$defs/Contact"}, "cs": {"$ref": "#/$defs/Contacts"}, "m": {"type": "object", "additionalProperties": {"anyOf": lst}}}}
        ds = []
        for g in goods:
            ds.append({"doc": {"c": g}, "cls": "all-branches", "path": ("c",)})
            ds.append({"doc": {"cs": [g, goods[0]]}, "cls": "all-branches", "path": ("cs", 0)})
            ds.append({"doc": {"m": {"k": g}}, "cls": "all-branches", "path": ("m", "k")})
        for b in bads:
            ds.append({"doc": {"cs": [goods[0], b]}, "cls": "branch-violated-item", "path": ("cs", 1)})
            ds.append({"doc": {"m": {"k": b}}, "cls": "branch-violated-item", "path": ("m", "k")})
        out.append(Case("c11xp%d" % oi, root, ds, fam="anyOf/shared-property-other-positions"))
    return out


def anyof_cases(ctx):
    out = []
    k = 0
    for n, form in itertools.product([1, 2, 3, 4], ["inline", "ref", "mixed"]):
        brs = [branch(i, 1, 1) for i in range(n)]
        defs, lst = {}, []
        for i, (b, _, _, _) in enumerate(brs):
            if form == "ref" or (form == "mixed" and i % 2 == 0):
                defs["Br%d" % i] = b
                lst.append({"$ref": "#/$defs/Br%d" % i})
            else:
                lst.append(b)
        root = {"type": "object", "properties": {"v": {"anyOf": lst}}, "required": ["v"]}
        if defs:
            root["$defs"] = defs
        docs = []
        for subset in itertools.product([False, True], repeat=n):
            d = {}
            for i, (b, good, bads, req) in enumerate(brs):
                if subset[i]:
                    d.update(good)
                else:
                    # leave the branch unsatisfied by omitting its required key; keys that are present keep the branch's type (guard)
                    for kk, vv in good.items():
                        if kk not in req:
                            d[kk] = vv
            docs.append({"doc": {"v": d}, "cls": "subset-" + "".join("1" if x else "0" for x in subset), "path": ("v",)})
        # one branch satisfied, another one violated by a constraint (not by type): still valid
        if n >= 2:
            d = {}
            d.update(brs[0][1])
            key, bad = [(kk, bb) for kk, bb in brs[1][2] if type(bb) == type(brs[1][1][kk])][0] if [(kk, bb) for kk, bb in brs[1][2] if type(bb) == type(brs[1][1][kk])] else (None, None)
            if key:
                d2 = dict(d)
                d2.update(brs[1][1])
                d2[key] = bad
                docs.append({"doc": {"v": d2}, "cls": "one-ok-one-violated", "path": ("v", key)})
        k += 1
        out.append(Case("c11o%d" % k, root, docs, fam="anyOf/%s/%d" % (form, n)))
    return out


def multi_file_cases():
    """two schema files in one run (both argument orders), each composing its own definition `base` (same reference text, different content) with an inline branch,
    at the root (allOf), in a property (allOf) and in a property (anyOf): every file's composite means that file's branches"""
    def mk(i, key, leaf, extra):
        base = {"type": "object", "properties": {key: leaf}, "required": [key]}
        inl = {"type": "object", "properties": {extra: {"type": "number"}}, "required": [extra]}
        return {"$id": "http://x/" + i, "type": "object", "$defs": {"base": base},
                "allOf": [{"$ref": "#/$defs/base"}, inl]}, base, inl

    def mkp(i, key, leaf, extra, comb):
        base = {"type": "object", "properties": {key: leaf}, "required": [key]}
        inl = {"type": "object", "properties": {extra: {"type": "number"}}, "required": [extra]}
        return {"$id": "http://x/" + i, "type": "object", "$defs": {"base": base},
                "properties": {"u": {comb: [{"$ref": "#/$defs/base"}, inl]}}, "required": ["u"]}
    out = []
    maps = [("http://x/order", "Order"), ("http://x/user", "User")]
    # root-level allOf
    order, _, _ = mk("order", "orderId", {"type": "integer"}, "amount")
    user, _, _ = mk("user", "login", {"type": "string", "minLength": 3}, "score")
    docs = []
    for t, key, good, extra in (("Order", "orderId", 7, "amount"), ("User", "login", "alice", "score")):
        docs.append({"doc": {key: good, extra: 1.5}, "cls": "mf-all", "path": (), "t": t, "expect": "ACC"})
        docs.append({"doc": {extra: 1.5}, "cls": "mf-missing-ref-branch-key", "path": (), "t": t, "expect": "REJ"})
        docs.append({"doc": {key: good}, "cls": "mf-missing-inline-branch-key", "path": (), "t": t, "expect": "REJ"})
    docs.append({"doc": {"login": "al", "score": 1}, "cls": "mf-constraint", "path": (), "t": "User", "expect": "REJ"})
    docs.append({"doc": {"orderId": "x", "amount": 1}, "cls": "mf-constraint", "path": (), "t": "Order", "expect": "REJ"})
    for ai, argv in enumerate((["s.json", "user.json"], ["user.json", "s.json"])):
        out.append(Case("c11mf%d" % ai, order, copy.deepcopy(docs), fam="multi-file/root-allOf", extra_files={"user.json": json.dumps(user)}, argv=argv, mappings=maps, no_model=True))
    for comb in ("allOf", "anyOf"):
        order = mkp("order", "orderId", {"type": "integer"}, "amount", comb)
        user = mkp("user", "login", {"type": "string", "minLength": 3}, "score", comb)
        docs = []
        for t, key, good, extra in (("Order", "orderId", 7, "amount"), ("User", "login", "alice", "score")):
            docs.append({"doc": {"u": {key: good, extra: 1.5}}, "cls": "mf-all", "path": (), "t": t, "expect": "ACC"})
            if comb == "allOf":
                docs.append({"doc": {"u": {extra: 1.5}}, "cls": "mf-missing-ref-branch-key", "path": (), "t": t, "expect": "REJ"})
                docs.append({"doc": {"u": {key: good}}, "cls": "mf-missing-inline-branch-key", "path": (), "t": t, "expect": "REJ"})
            else:
                docs.append({"doc": {"u": {}}, "cls": "mf-no-branch", "path": (), "t": t, "expect": "REJ"})
        for ai, argv in enumerate((["s.json", "user.json"], ["user.json", "s.json"])):
            out.append(Case("c11mp%s%d" % (comb, ai), order, copy.deepcopy(docs), fam="multi-file/property-" + comb, extra_files={"user.json": json.dumps(user)}, argv=argv, mappings=maps,
                            no_model=True))
    return out


def run(ctx):
    ctx.proof_step(PROPS_FILE)
    mf = multi_file_cases()
    cases = allof_cases(ctx) + anyof_cases(ctx) + nested_cases() + extra_forms()
    from vlib.lookalike import lookalike_composites
    from vlib.valuecheck import expect_cases
    la = lookalike_composites("c11")
    run_cases(ctx, cases + mf + la, "c11")
    expect_cases(ctx, la, "allOf/anyOf")
    nmf = 0
    for c in mf:
        if not c.build_ok:
            ctx.violation("oracle", dict(c.replay_obj(), gen_err=c.gen_err, build_err=c.build_err), "%s: generation failed or does not build: %s" % (c.fam, (c.gen_err or c.build_err)[:300]))
            nmf += 1
            continue
        ctx.cov["programs"] += 1
        for di, d in enumerate(c.docs):
            o = d.get("obs") or {}
            ctx.count({"s": c.argv, "f": c.fam, "d": d["doc"], "t": d["t"]}, True, "allOf/anyOf/" + c.fam)
            if o.get("v") != d["expect"] and nmf < 4:
                ctx.violation("oracle", c.replay_obj(di), "%s, files %s, type %s: document %s (%s) should be %s, was %s %s"
                              % (c.fam, c.argv, d["t"], json.dumps(d["doc"]), d["cls"], d["expect"], o.get("v"), o.get("err", "")[:120]))
                nmf += 1
    classes = set(d["cls"] for c in cases for d in c.docs)
    nv = evaluate(ctx, cases, classes, {}, "allOf/anyOf")
    # the generated type exposes the union of the branches' properties
    for c in cases:
        if nv >= 6 or not c.build_ok or not c.fam.startswith("allOf"):
            continue
        want = set()

        def collect(s):
            for b in s.get("allOf", []):
                if "$ref" in b:
                    b = c.schema["$defs"][b["$ref"].split("/")[-1]]
                want.update(b.get("properties", {}))
        pr = c.schema["properties"]
        u = pr["u"] if "u" in pr else (pr["o"]["properties"]["u"] if "o" in pr else pr["l"]["items"])
        collect(u)
        tags = set()
        for sc in c.scan.values():
            for t in sc["types"]:
                for f in t.get("fields", []):
                    tags.add(f["tag"].split('"')[1].split(",")[0] if '"' in f["tag"] else "")
        if not want <= tags:
            ctx.violation("oracle", c.replay_obj(), "allOf: the generated types lack fields for %s" % sorted(want - tags))
            nv += 1
    from vlib import regress
    regress.search(ctx, {"C11"})          # the shape-agnostic search step (DESIGN.md 12.8)
    replay_findings(ctx)
    ctx.cov["rule"] = ("allOf: 1-4 object branches x inline / by reference / mixed x disjoint or overlapping property sets (a shared integer property constrained differently by each "
                       "branch) x as a property or as a definition; documents: all branches satisfied, each branch's required key removed, each branch's constraints violated, optional "
                       "keys removed, boundary values of the shared property; anyOf: 1-4 branches x inline / ref / mixed; documents for every subset of satisfied branches (2^n) and one "
                       "with a constraint-violated branch next to a satisfied one; oracle: verdict == reference semantics; non-trivial = every document; distinct by hash")
    c = cases[3]
    ctx.sample({"family": c.fam, "schema": c.schema, "doc": c.docs[1]["doc"], "class": c.docs[1]["cls"], "impl": (c.docs[1].get("obs") or {}).get("v"), "valid": c.docs[1].get("valid")})
