"""C09 - absent properties take their schema default; present values win."""
import copy
import json

from vlib.valuecheck import build_cases, evaluate, replay  # noqa: F401
from vlib.kitchen import run_cases, json_eq, Docs, Case

PROPS_FILE = "Props/C09.v"
DEFAULTS = [
    ({"type": "string"}, "hello"), ({"type": "string", "minLength": 2}, "abc"), ({"type": "integer"}, 7), ({"type": "integer", "minimum": 1, "maximum": 9}, 5),
    ({"type": "number"}, 2.5), ({"type": "number"}, 0.5), ({"type": "number"}, -0.25), ({"type": "number", "minimum": 0, "maximum": 1}, 0.75), ({"type": "integer"}, -1), ({"type": "number", "multipleOf": 0.5}, 1.5), ({"type": "boolean"}, True), ({}, "free"), ({}, 12),
    ({"type": "array", "items": {"type": "string"}}, ["a", "b"]), ({"type": "array", "items": {"type": "integer"}}, [1, 2, 3]),
    ({"type": "array", "items": {"type": "number"}}, [0.5]), ({"type": "string", "enum": ["red", "green", "blue"]}, "green"),
    ({"enum": ["on", "off"]}, "off"), ("REF-ENUM", "q"), ("REF-STR", "xyz"),
    # literals whose rendering depends on the Go type of the field: fractional defaults on untyped / multi-typed / enum-typed fields
    ({}, 2.5), ({"type": ["number", "string"]}, 0.75), ({"type": "number", "enum": [0.25, 0.5, 0.75]}, 0.5), ({"type": "integer", "enum": [1, 2, 3]}, 2),
    # line endings and control characters (a raw string literal cannot hold a carriage return)
    ({"type": "string"}, "HTTP/1.1 200 OK\r\nContent-Type: text/plain\r\n\r\n"), ({"type": "string"}, "cr\ronly"), ({"type": "string"}, "multi\nline\n"), ({}, "free\r\ntext"),
    ({"type": "array", "items": {"type": "string"}}, [",", "\r\n", "\n", "\t\u0000\u007f"]), ({"type": "string"}, "nul\u0000bell\u0007 \u2028 \ufeff"),
    ({}, True), ({}, -3.5), ({"type": "string"}, "50%off \"q\" back\\slash `t` %d"), ({"type": "array", "items": {"type": "string"}}, ["100%", "a\nb"]),        # (a default on a nullable primitive does not compile: finding C01-default-on-nullable)
]
# the property carrying the default: names containing Go type words (the generated type / field names contain them too)
KEYS = ["d", "checkpoint", "substring", "afloat", "mapped", "hint"]
OTHER = {"HTTP/1.1 200 OK\r\nContent-Type: text/plain\r\n\r\n": "HTTP/1.1 200 OK\nContent-Type: text/plain\n\n", "cr\ronly": "cronly", "multi\nline\n": "multi\r\nline\r\n", "free\r\ntext": "free\ntext",
         "nul\u0000bell\u0007 \u2028 \ufeff": "nulbell", "50%off \"q\" back\\slash `t` %d": "plain", 1.25: 2.25, 4: 5, "maybe": "surely", -3.5: 3.5, 2: 3, 0.5: 1.5, -0.25: 2.5, 0.75: 0.25, -1: 3, "hello": "other", "abc": "zz", 7: 8, 5: 6, 2.5: 3.5, 1.5: 2.0, True: False, "free": "bound", 12: 13, "green": "blue", "off": "on", "q": "p", "xyz": "abcd"}


def systematic():
    out = []
    for i, (sch, dv) in enumerate(DEFAULTS):
        for pos in ("optional", "required", "nested", "item-object", "definition"):
            defs = {}
            if sch == "REF-ENUM":
                defs = {"E": {"type": "string", "enum": ["p", "q", "r"]}}
                p = {"$ref": "#/$defs/E", "default": dv}
            elif sch == "REF-STR":
                defs = {"S": {"type": "string", "minLength": 1}}
                p = {"$ref": "#/$defs/S", "default": dv}
            else:
                p = dict(sch, default=dv)
            dk = KEYS[(i + len(out)) % len(KEYS)]
            inner = {"type": "object", "properties": {dk: p, "k": {"type": "integer"}}}
            if pos == "required":
                inner["required"] = [dk]
            if pos in ("optional", "required"):
                root = inner
            elif pos == "nested":
                root = {"type": "object", "properties": {"o": inner}, "required": ["o"]}
            elif pos == "item-object":
                root = {"type": "object", "properties": {"l": {"type": "array", "items": inner}}}
            else:
                defs["Inner"] = inner
                root = {"type": "object", "properties": {"r": {"$ref": "#/$defs/Inner"}}}
            if defs:
                root["$defs"] = defs
            out.append((root, pos, dv, p, dk))
    return out


def colliding():
    """definitions whose Go names collide and that differ only in their defaults: each keeps its own defaults"""
    def pol(a, bk, tags):
        return {"type": "object", "properties": {"attempts": {"type": "integer", "default": a}, "backoff": {"type": "string", "default": bk},
                                                 "tags": {"type": "array", "items": {"type": "string"}, "default": tags}}}
    out = []
    for n1, n2 in (("retry_policy", "retry-policy"), ("Retry", "retry"), ("retryPolicy", "RetryPolicy")):
        root = {"type": "object", "$defs": {n1: pol(3, "linear", ["a"]), n2: pol(10, "exponential", ["b", "c"])},
                "properties": {"inbound": {"$ref": "#/$defs/" + n1}, "outbound": {"$ref": "#/$defs/" + n2}}}
        docs = [({"inbound": {}, "outbound": {}}, {"inbound": {"attempts": 3, "backoff": "linear", "tags": ["a"]}, "outbound": {"attempts": 10, "backoff": "exponential", "tags": ["b", "c"]}}),
                ({"outbound": {"attempts": None}}, {"outbound": {"attempts": 10, "backoff": "exponential", "tags": ["b", "c"]}}),
                ({"inbound": {"backoff": "x"}, "outbound": {"backoff": "y"}}, {"inbound": {"attempts": 3, "backoff": "x", "tags": ["a"]}, "outbound": {"attempts": 10, "backoff": "y", "tags": ["b", "c"]}})]
        out.append((root, docs))
    # inline types with one Go name that differ only in the default value
    from vlib.valuecheck import collide_root

    def conn(d):
        return {"type": "object", "properties": {"host": {"type": "string"}, "port": {"type": "integer", "default": d}}, "required": ["host"]}
    root = collide_root(conn(80), conn(443), key="w")
    h = {"w": {"host": "x"}}
    w = lambda p: {"w": {"host": "x", "port": p}}       # noqa: E731
    out.append((root, [({"a": {"bC": h}, "aB": {"c": h}, "aBC": h, "a_bC": h}, {"a": {"bC": w(80)}, "aB": {"c": w(443)}, "aBC": w(443), "a_bC": w(80)})]))
    return out


def docs_for(pos, dv, p, dk="d"):
    return [(tag, rekey(d, dk), tuple(dk if x == "d" else x for x in path)) for tag, d, path in docs_for_d(pos, dv, p)]


def rekey(d, dk):
    if isinstance(d, dict):
        return {(dk if k == "d" else k): rekey(v, dk) if k != "d" else v for k, v in d.items()}
    if isinstance(d, list):
        return [rekey(x, dk) for x in d]
    return d


def docs_for_d(pos, dv, p):
    other = OTHER.get(dv if not isinstance(dv, list) else None)
    if isinstance(dv, list):
        other = dv[:1] + dv[:1]
    inner = [("absent", {"k": 1}), ("null", {"k": 1, "d": None}), ("present-other", {"k": 1, "d": other}), ("present-same", {"d": copy.deepcopy(dv)})]
    if "enum" in p or "$ref" in p or (isinstance(p.get("type"), list) and "null" in p["type"]):
        inner = [x for x in inner if x[0] != "null"]         # D37: an enum-typed default is not applied for null
    out = []
    for tag, d in inner:
        if pos in ("optional", "required"):
            out.append((tag, d, ("d",)))
        elif pos == "nested":
            out.append((tag, {"o": d}, ("o", "d")))
        elif pos == "item-object":
            out.append((tag, {"l": [d, {"k": 2}]}, ("l", 0, "d")))
        else:
            out.append((tag, {"r": d}, ("r", "d")))
    return out


def get_path(doc, path):
    for p in path:
        if isinstance(doc, dict) and p in doc:
            doc = doc[p]
        elif isinstance(doc, list) and isinstance(p, int) and p < len(doc):
            doc = doc[p]
        else:
            return None, False
    return doc, True


def yaml_schema_cases():
    """schema files written in YAML whose defaults are plain or block scalars (YAML 1.2: a date-like plain scalar is a string): the default reaches the
    emitted code as written"""
    yml = """type: object
properties:
  since:
    type: string
    default: 2024-01-15
  stamp:
    type: string
    default: 2001-12-14T21:59:43Z
  words:
    type: string
    default: plain words here
  block:
    type: string
    default: |
      line one
      line two
  folded:
    type: string
    default: >
      folded text
      continues
  version:
    type: string
    default: "1.10"
  list:
    type: array
    items:
      type: string
    default:
      - 2024-01-15
      - b c
  k:
    type: integer
"""
    want = {"since": "2024-01-15", "stamp": "2001-12-14T21:59:43Z", "words": "plain words here", "block": "line one\nline two\n", "folded": "folded text continues\n",
            "version": "1.10", "list": ["2024-01-15", "b c"]}
    schema = {"type": "object", "properties": {k: {"type": "string", "default": v} if not isinstance(v, list) else {"type": "array", "items": {"type": "string"}, "default": v}
                                               for k, v in want.items()}}
    schema["properties"]["k"] = {"type": "integer"}
    docs = [({}, dict(want)), ({"k": 1, "since": None, "list": None}, dict(want, k=1)), ({"since": "x", "block": "y"}, dict(want, since="x", block="y"))]
    out = []
    for ext in ("yaml", "yml"):
        out.append(Case("c09y" + ext, schema, [{"doc": d, "cls": "yaml-schema-defaults", "path": (), "want": w} for d, w in docs], fam="yaml-schema",
                        extra_files={"s." + ext: yml}, argv=["s." + ext], no_model=True))
    return out


def run(ctx):
    ctx.proof_step(PROPS_FILE)
    cases = []
    for i, (root, pos, dv, p, dk) in enumerate(systematic()):
        docs = [{"doc": d, "cls": "default-" + tag, "path": path, "dv": dv} for tag, d, path in docs_for(pos, dv, p, dk)]
        cases.append(Case("c09s%d" % i, root, docs, fam="systematic"))
    coll = []
    for i, (root, docs) in enumerate(colliding()):
        coll.append(Case("c09c%d" % i, root, [{"doc": d, "cls": "colliding-defaults", "path": (), "want": w} for d, w in docs], fam="colliding-names"))
    coll += yaml_schema_cases()
    n = 20 if ctx.tier == "quick" else 300
    rnd = build_cases(ctx, n, ["string", "integer", "number", "boolean"], {"optional-absent", "valid", "required-default"}, "c09x", docs_per=3,
                      gen_kwargs={"allow_formats": False})
    run_cases(ctx, cases + rnd + coll, "c09")
    for c in rnd + cases:
        for d in c.docs:
            if d["cls"] in ("required-default", "default-null", "default-absent") and d.get("valid") is not None:
                d["valid"] = True          # the property: absent or null takes the default (also for a required key)
    nv = evaluate(ctx, cases + rnd, {"default-absent", "default-null", "default-present-other", "default-present-same", "optional-absent", "valid", "required-default"},
                  {"required-default": "valid"}, "defaults")
    # the decoded value: default when absent/null, the document's value when present
    for c in cases:
        if nv >= 6 or not c.build_ok:
            continue
        for di, d in enumerate(c.docs):
            o = d.get("obs") or {}
            if o.get("v") != "ACC":
                continue
            got, ok = get_path(json.loads(o["out"]), d["path"])
            if d["cls"] in ("default-absent", "default-null"):
                want = d["dv"]
            else:
                want, _ = get_path(d["doc"], d["path"])
            if not ok and (want is False or want == 0 or want == "" or want == []):
                continue                 # a present zero value is dropped by omitempty when marshalling back
            if not (ok and json_eq(want, got)):
                ctx.violation("oracle", c.replay_obj(di), "property with default %s, document %s (%s): decoded value is %s, expected %s"
                              % (json.dumps(d["dv"]), json.dumps(d["doc"]), d["cls"], json.dumps(got) if ok else "missing", json.dumps(want)))
                nv += 1
                break
    for c in coll:
        if not c.build_ok:
            ctx.violation("oracle", dict(c.replay_obj(), build_err=c.build_err, gen_err=c.gen_err), "%s: generation failed or does not build" % c.fam)
            nv += 1
            continue
        ctx.cov["programs"] += 1
        for di, d in enumerate(c.docs):
            o = d.get("obs") or {}
            ctx.count({"s": c.schema, "d": d["doc"], "f": c.fam}, True, "defaults/" + c.fam)
            got = json.loads(o["out"]) if o.get("v") == "ACC" else None
            if got is None or not json_eq(got, d["want"]):
                if nv < 6:
                    ctx.violation("oracle", c.replay_obj(di), "%s: document %s decodes to %s, expected %s (every property keeps the default its own schema states)"
                                  % (c.fam, json.dumps(d["doc"]), o.get("out") or o.get("err"), json.dumps(d["want"])))
                nv += 1
    # random schemas: every absent defaulted property shows its default after decoding
    for c in rnd:
        if nv >= 6 or not c.build_ok:
            continue
        dg = Docs(c.schema, None)
        for di, d in enumerate(c.docs):
            o = d.get("obs") or {}
            if o.get("v") != "ACC" or not isinstance(d["doc"], dict):
                continue
            out = json.loads(o["out"])
            bad = None
            for path, s0, s, v in dg.sites(c.schema, d["doc"]):
                if isinstance(v, dict) and "object" in (s.get("type") if isinstance(s.get("type"), list) else [s.get("type")]):
                    for k, ps in s.get("properties", {}).items():
                        pr = dg.resolve(ps)
                        if isinstance(ps, dict) and ps.get("default") is not None and (k not in v or v[k] is None):
                            got, ok = get_path(out, path + (k,))
                            if not (ok and json_eq(ps["default"], got)):
                                bad = (path + (k,), ps["default"], got if ok else None)
            if bad:
                ctx.violation("oracle", c.replay_obj(di), "absent property %s: decoded %s, schema default %s" % ("/".join(map(str, bad[0])), json.dumps(bad[2]), json.dumps(bad[1])))
                nv += 1
                break
    from vlib.valuecheck import replay_findings
    from vlib import regress
    regress.search(ctx, {"C09"})          # the shape-agnostic search step (DESIGN.md 12.8)
    replay_findings(ctx)
    ctx.cov["rule"] = ("systematic: 16 (property schema, default) pairs (scalars with and without constraints, untyped, one-level arrays, typed/untyped/referenced string enums, "
                       "referenced string definition) x 5 positions (optional, required, nested, object inside an array, definition) x documents with the property absent, null, "
                       "present with another value, present with the default; the decoded value is read from the re-marshalled output; random: scalar-focused in-guard schemas "
                       "with defaults; non-trivial = every document; distinct by hash of (schema, document)")
    c = cases[3]
    ctx.sample({"family": c.fam, "schema": c.schema, "doc": c.docs[0]["doc"], "class": c.docs[0]["cls"], "impl": (c.docs[0].get("obs") or {}).get("out")})
