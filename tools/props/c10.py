"""C10 - $ref is transparent, resolves relative to its document, and may recurse."""
import copy
import json
import os
import posixpath

from vlib.valuecheck import build_cases, evaluate, replay, replay_findings  # noqa: F401
from vlib.kitchen import run_cases, Case, Docs, json_eq, defs_of
from vlib.respell import to_yaml
from vlib.schemagen import SchemaGen

PROPS_FILE = "Props/C10.v"
CLASSES = {"valid", "required", "type", "bound", "string", "items", "enum", "optional-absent", "number-valid", "string-valid", "enum-member"}


def inline(node, files, cur, depth=0):
    """replace every $ref by a copy of its target (targets in other files are resolved relative to the referring file)"""
    if depth > 12:
        raise ValueError("recursive reference")
    if isinstance(node, dict):
        if "$ref" in node:
            r = node["$ref"]
            fpart, _, frag = r.partition("#")
            if fpart.startswith("file://"):
                fpart = fpart[len("file://"):]
            path = cur
            if fpart:
                path = posixpath.normpath(posixpath.join(posixpath.dirname(cur), fpart))
                if path not in files:
                    for ext in (".json", ".yaml"):
                        if path + ext in files:
                            path = path + ext
                            break
            doc = files[path]
            if frag:
                name = frag.split("/")[-1]
                target = defs_of(doc)[name]
            else:
                target = {k: v for k, v in doc.items() if k not in ("$defs", "definitions", "$id", "id")}
                target.setdefault("type", "object")
            return inline(copy.deepcopy(target), files, path, depth + 1)
        return {k: (inline(v, files, cur, depth) if k not in ("enum", "default", "required") else v) for k, v in node.items() if k not in ("$defs", "definitions")}
    if isinstance(node, list):
        return [inline(x, files, cur, depth) for x in node]
    return node


def recursive_schemas():
    node = {"type": "object", "properties": {"v": {"type": "integer", "minimum": 0}, "next": {"$ref": "#/$defs/Node"},
                                             "kids": {"type": "array", "items": {"$ref": "#/$defs/Node"}, "maxItems": 3}}, "required": ["v"]}
    a = {"type": "object", "properties": {"name": {"type": "string", "minLength": 1}, "b": {"$ref": "#/$defs/B"}}, "required": ["name"]}
    bb = {"type": "object", "properties": {"n": {"type": "integer"}, "a": {"$ref": "#/$defs/A"}, "as": {"type": "array", "items": {"$ref": "#/$defs/A"}}}}
    return [
        {"type": "object", "$defs": {"Node": node}, "properties": {"root": {"$ref": "#/$defs/Node"}}},
        {"type": "object", "definitions": {"A": a, "B": bb}, "properties": {"start": {"$ref": "#/definitions/A"}, "other": {"$ref": "#/definitions/B"}}},
        {"type": "object", "$defs": {"Tree": {"type": "object", "properties": {"label": {"type": "string", "pattern": "^a"},
                                                                               "children": {"type": "object", "additionalProperties": {"$ref": "#/$defs/Tree"}}}}},
         "properties": {"t": {"$ref": "#/$defs/Tree"}}},
    ]


def deep_docs(sc, depth):
    """documents nested to the given depth for the recursive schemas"""
    if "Node" in defs_of(sc):
        def mk(d, bad=False):
            n = {"v": -1 if (bad and d == 0) else d}
            if d > 0:
                n["next"] = mk(d - 1, bad)
                n["kids"] = [mk(d - 1, bad)]
            return n
        return [({"root": mk(depth)}, "valid"), ({"root": mk(depth, True)}, "bound")]
    if "A" in defs_of(sc):
        def mka(d, bad=False):
            a = {"name": "" if (bad and d == 0) else "x"}
            if d > 0:
                a["b"] = {"n": d, "a": mka(d - 1, bad), "as": [mka(d - 1, bad)]}
            return a
        return [({"start": mka(depth)}, "valid"), ({"start": mka(depth, True)}, "string")]

    def mkt(d, bad=False):
        t = {"label": "b" if (bad and d == 0) else "ab"}
        if d > 0:
            t["children"] = {"k1": mkt(d - 1, bad), "k2": mkt(d - 1)}
        return t
    return [({"t": mkt(depth)}, "valid"), ({"t": mkt(depth, True)}, "string")]


def multi_file_cases(ctx):
    """(name, files, main path, resolve extensions)"""
    base_o = {"type": "object", "properties": {"name": {"type": "string", "minLength": 2}}, "required": ["name"]}
    base_c = {"type": "object", "properties": {"sku": {"type": "string", "minLength": 4}}, "required": ["sku"]}
    order = {"$id": "http://x/main", "type": "object", "$defs": {"Base": base_o},
             "properties": {"buyer": {"allOf": [{"$ref": "#/$defs/Base"}, {"type": "object", "properties": {"vip": {"type": "boolean"}}}]},
                            "item": {"$ref": "catalog.json#/$defs/Item"}}, "required": ["buyer", "item"]}
    catalog = {"description": "catalog", "$defs": {"Base": base_c,
                                                  "Item": {"type": "object", "properties": {"details": {"allOf": [{"$ref": "#/$defs/Base"},
                                                                                                               {"type": "object", "properties": {"w": {"type": "number", "minimum": 0}}}]},
                                                                                           "n": {"type": "integer", "minimum": 1}}, "required": ["details"]}}}
    out = [("same-local-ref-two-files", {"s.json": order, "catalog.json": catalog}, "s.json", [])]
    common = {"description": "common", "$defs": {"Label": {"type": "string", "minLength": 1, "maxLength": 5}, "Amount": {"type": "integer", "minimum": 0, "maximum": 100},
                                              "Pair": {"type": "object", "properties": {"l": {"$ref": "#/$defs/Label"}, "a": {"$ref": "#/$defs/Amount"}}, "required": ["l"]}}}
    for layout, refp, files_of in [
        ("sibling", "common.json", lambda c: {"common.json": c}),
        ("subdir", "lib/common.json", lambda c: {"lib/common.json": c}),
        ("yaml-sibling", "common.yaml", lambda c: {"common.yaml": c}),
        ("no-extension", "lib/common", lambda c: {"lib/common.json": c}),
    ]:
        main = {"$id": "http://x/main", "type": "object", "properties": {"p": {"$ref": refp + "#/$defs/Pair"}, "ls": {"type": "array", "items": {"$ref": refp + "#/$defs/Label"}, "minItems": 1},
                                                 "amt": {"$ref": refp + "#/$defs/Amount"}}, "required": ["p"]}
        fs = {"s.json": main}
        fs.update(files_of(common))
        out.append((layout, fs, "s.json", [".json"] if layout == "no-extension" else []))
    # a reference from a sub-directory back to the parent directory, whole-file references
    leaf = {"type": "object", "properties": {"v": {"type": "number", "minimum": 0}}, "required": ["v"]}
    mid = {"type": "object", "properties": {"leaf": {"$ref": "../leaf.json"}, "k": {"type": "integer"}}}
    top = {"$id": "http://x/main", "type": "object", "properties": {"mid": {"$ref": "sub/mid.json"}, "l2": {"$ref": "leaf.json"}}}
    # two referenced files with the same base name: the second root type name is taken when it is reached (repaired defect D40)
    out.append(("same-base-name", {"s.json": {"$id": "http://x/main", "type": "object", "properties": {"x": {"$ref": "a/item.json"}, "y": {"$ref": "b/item.json"}}},
                                   "a/item.json": {"type": "object", "properties": {"n": {"type": "integer", "minimum": 1}}},
                                   "b/item.json": {"type": "object", "properties": {"leaf": {"$ref": "../leaf.json"}, "m": {"type": "string", "minLength": 1}}},
                                   "leaf.json": leaf}, "s.json", []))
    # same-named, different definitions in two files of one package; the second file is reached through two spellings of its path
    ia = {"description": "a", "$defs": {"Item": {"type": "object", "properties": {"s": {"type": "string", "minLength": 2}}, "required": ["s"]}}}
    ib = {"description": "b", "$defs": {"Item": {"type": "object", "properties": {"n": {"type": "integer", "minimum": 1}}, "required": ["n"]}}}
    ic = {"type": "object", "properties": {"z": {"$ref": "../b.json#/$defs/Item"}, "w": {"$ref": "../a.json#/$defs/Item"}}}
    out.append(("same-name-two-files", {"s.json": {"$id": "http://x/main", "type": "object",
                                                   "properties": {"a": {"$ref": "a.json#/$defs/Item"}, "b": {"$ref": "b.json#/$defs/Item"}, "c": {"$ref": "sub/c.json"}}},
                                        "a.json": ia, "b.json": ib, "sub/c.json": ic}, "s.json", []))
    # files with the same base name at two depths, reached through ../ , ./ and bare spellings from the same referring file
    t_top = {"description": "shared types", "$defs": {"Id": {"type": "string", "minLength": 3}, "Qty": {"type": "integer", "minimum": 0}}}
    t_sub = {"description": "order-local types", "$defs": {"Id": {"type": "integer", "minimum": 1}, "Qty": {"type": "number", "maximum": 9.5}}}
    order2 = {"type": "object", "properties": {"customer": {"$ref": "../types.json#/$defs/Id"}, "number": {"$ref": "types.json#/$defs/Id"},
                                               "amount": {"$ref": "./types.json#/$defs/Qty"}, "stock": {"$ref": "../types.json#/$defs/Qty"}}, "required": ["customer", "number"]}
    out.append(("same-base-name-two-depths", {"s.json": {"$id": "http://x/main", "type": "object", "properties": {"o": {"$ref": "sub/order.json"}, "top": {"$ref": "types.json#/$defs/Id"}},
                                                         "required": ["o"]},
                                              "sub/order.json": order2, "types.json": t_top, "sub/types.json": t_sub}, "s.json", []))
    out.append(("same-base-name-two-depths-local-first", {"s.json": {"$id": "http://x/main", "type": "object", "properties": {"o": {"$ref": "./sub/order.json"}}, "required": ["o"]},
                                                          "sub/order.json": {"type": "object", "properties": {"number": {"$ref": "types.json#/$defs/Id"}, "customer": {"$ref": "../types.json#/$defs/Id"}}},
                                                          "types.json": t_top, "sub/types.json": t_sub}, "s.json", []))
    # three referenced files with one base name: the first differs, the second and third are equal in content (a declaration may be shared only between equal schemas)
    it1 = {"type": "object", "properties": {"n": {"type": "integer", "minimum": 1}}, "required": ["n"]}
    it2 = {"type": "object", "properties": {"s": {"type": "string", "minLength": 2}}, "required": ["s"]}
    out.append(("same-base-name-three-files", {"s.json": {"$id": "http://x/main", "type": "object", "properties": {"x": {"$ref": "x/item.json"}, "y": {"$ref": "y/item.json"}, "z": {"$ref": "z/item.json"}}},
                                               "x/item.json": it1, "y/item.json": it2, "z/item.json": it2}, "s.json", []))
    out.append(("same-definition-name-three-files", {"s.json": {"$id": "http://x/main", "type": "object", "properties": {"x": {"$ref": "x.json#/$defs/Item"}, "y": {"$ref": "y.json#/$defs/Item"},
                                                                                                                   "z": {"$ref": "z.json#/$defs/Item"}}},
                                                     "x.json": {"description": "x", "$defs": {"Item": it2}}, "y.json": {"description": "y", "$defs": {"Item": it1}},
                                                     "z.json": {"description": "z", "$defs": {"Item": it1}}}, "s.json", []))
    # a whole-file reference to a document whose root is a pure composition of its own definitions
    person = {"$id": "http://x/person", "title": "Person", "allOf": [{"$ref": "#/$defs/Named"}, {"$ref": "#/$defs/Aged"}],
              "$defs": {"Named": {"type": "object", "properties": {"name": {"type": "string", "minLength": 2}}, "required": ["name"]},
                        "Aged": {"type": "object", "properties": {"age": {"type": "integer", "minimum": 0}}, "required": ["age"]}}}
    out.append(("whole-file-composite", {"s.json": {"$id": "http://x/main", "type": "object", "properties": {"owner": {"$ref": "person.json"}, "count": {"type": "integer"}}, "required": ["owner"]},
                                         "person.json": person}, "s.json", []))
    out.append(("whole-file-composite-subdir", {"s.json": {"$id": "http://x/main", "type": "object", "properties": {"owners": {"type": "array", "items": {"$ref": "people/person.json"}, "minItems": 1}}},
                                                "people/person.json": person}, "s.json", []))
    out.append(("parent-dir", {"s.json": top, "sub/mid.json": mid, "leaf.json": leaf}, "s.json", []))
    # a reference written with the file:// scheme to a document that itself refers to a sibling of its own
    f_types = {"description": "types", "$defs": {"T": {"type": "object", "properties": {"b": {"$ref": "./base.json"}, "n": {"type": "integer", "minimum": 1}}, "required": ["b"]}}}
    f_base = {"type": "object", "properties": {"v": {"type": "string", "minLength": 2}}, "required": ["v"]}
    f_decoy = {"type": "object", "properties": {"v": {"type": "integer"}}, "required": ["v"]}
    out.append(("file-scheme-two-hops", {"s.json": {"$id": "http://x/main", "type": "object", "properties": {"t": {"$ref": "file://common/types.json#/$defs/T"}}, "required": ["t"]},
                                         "common/types.json": f_types, "common/base.json": f_base, "base.json": f_decoy,
                                         "__docs__": [{"t": {"b": {"v": "ab"}}}, {"t": {"b": {"v": 5}}}, {"t": {"b": {"v": "a"}}}]}, "s.json", []))
    # a file that refers to a file of the SAME base name in another directory (and to itself by name): same definition names, different content
    api = {"description": "api types", "$defs": {"Id": {"type": "string", "minLength": 3},
                                               "Account": {"type": "object", "properties": {"account": {"$ref": "../common/types.json#/$defs/Id"}, "label": {"$ref": "#/$defs/Id"},
                                                                                             "again": {"$ref": "types.json#/$defs/Id"}}, "required": ["account"]}}}
    common = {"description": "common types", "$defs": {"Id": {"type": "integer", "minimum": 1}}}
    out.append(("same-base-name-other-directory", {"s.json": {"$id": "http://x/main", "type": "object", "properties": {"a": {"$ref": "api/types.json#/$defs/Account"}}, "required": ["a"]},
                                                   "api/types.json": api, "common/types.json": common,
                                                   "__docs__": [{"a": {"account": 5, "label": "abc", "again": "xyz"}}, {"a": {"account": "abc"}}, {"a": {"account": 5, "label": 7}}]}, "s.json", []))
    # (a whole-file reference from v2/schema.json to ../v1/schema.json asks for the root type name of a declaration in progress: recorded finding C14-dup-type-name-in-progress)
    # same-named definitions in two files that differ only in annotations (defaults, titles, descriptions): each reference keeps its own definition's defaults
    def ep(port, tls, title):
        return {"type": "object", "title": title, "properties": {"host": {"type": "string"}, "port": {"type": "integer", "default": port, "description": "port %d" % port},
                                                                 "tls": {"type": "boolean", "default": tls}, "tags": {"type": "array", "items": {"type": "string"}, "default": [title]}}, "required": ["host"]}
    for nm, fa, fb in (("two-files", "public.json", "admin.json"), ("same-base-name", "a/endpoint.json", "b/endpoint.json")):
        out.append(("same-definition-name-annotations-differ/" + nm,
                    {"s.json": {"$id": "http://x/main", "type": "object", "properties": {"public": {"$ref": fa + "#/$defs/Endpoint"}, "admin": {"$ref": fb + "#/$defs/Endpoint"},
                                                                                     "more": {"type": "array", "items": {"$ref": fb + "#/$defs/Endpoint"}}}, "required": ["public", "admin"]},
                     fa: {"description": "public", "$defs": {"Endpoint": ep(80, False, "Public endpoint")}}, fb: {"description": "admin", "$defs": {"Endpoint": ep(8443, True, "Admin endpoint")}},
                     "__docs__": [{"public": {"host": "a"}, "admin": {"host": "b"}}, {"public": {"host": "a", "port": None}, "admin": {"host": "b", "tls": None}, "more": [{"host": "c"}]},
                                  {"admin": {"host": "b"}, "public": {"host": "a", "port": 1, "tls": True, "tags": []}}]}, "s.json", []))
    return out


def recursive_file_cases():
    """recursion that runs through a reference to a whole file (a tree whose children are `tree.json` again; two files that refer to each other), the
    referenced root with and without a `type`, the file used twice by the referrer: one declared type per file, every level decoded and checked"""
    out = []
    n = 0

    def tree_doc(depth, bad_at=None):
        d = {"name": "n%d" % depth}
        if bad_at == depth:
            del d["name"]
        if depth > 0:
            d["children"] = [tree_doc(depth - 1, bad_at), tree_doc(0, None)]
        return d
    for typed in (False, True):
        for via in ("items", "property", "map"):
            tree = {"required": ["name"], "properties": {"name": {"type": "string", "minLength": 1}}}
            if typed:
                tree["type"] = "object"
            if via == "items":
                tree["properties"]["children"] = {"type": "array", "items": {"$ref": "tree.json"}}
                wrap = lambda kids: kids
            elif via == "property":
                tree["properties"]["children"] = {"$ref": "tree.json"}
                wrap = lambda kids: kids[0]
            else:
                tree["properties"]["children"] = {"type": "object", "additionalProperties": {"$ref": "tree.json"}}
                wrap = lambda kids: {"k%d" % i: k for i, k in enumerate(kids)}

            def conv(d):
                if "children" in d:
                    d = dict(d, children=wrap([conv(x) for x in d["children"]]))
                return d
            main = {"$id": "http://x/main", "type": "object", "properties": {"root": {"$ref": "tree.json"}, "spare": {"$ref": "tree.json"}}, "required": ["root"]}
            docs = []
            for depth in (0, 1, 2, 4):
                docs.append({"doc": {"root": conv(tree_doc(depth)), "spare": conv(tree_doc(1))}, "cls": "valid", "path": ("depth", depth), "expect": "ACC"})
                docs.append({"doc": {"root": conv(tree_doc(depth, bad_at=0))}, "cls": "required", "path": ("depth", depth), "expect": "REJ"})
                if depth:
                    docs.append({"doc": {"root": conv(tree_doc(depth)), "spare": conv(tree_doc(depth, bad_at=depth - 1))}, "cls": "required", "path": ("spare", depth), "expect": "REJ"})
            out.append(Case("c10rf%d" % n, main, docs, fam="recursive-files/%s/%s" % ("typed" if typed else "root-without-type", via), extra_files={"tree.json": json.dumps(tree)}, no_model=True))
            n += 1
    # two files that refer to each other
    for typed in (False, True):
        a = {"required": ["id"], "properties": {"id": {"type": "integer", "minimum": 1}, "b": {"$ref": "b.json"}}}
        b = {"required": ["tag"], "properties": {"tag": {"type": "string", "minLength": 2}, "a": {"$ref": "a.json"}}}
        if typed:
            a["type"] = b["type"] = "object"
        main = {"$id": "http://x/main", "type": "object", "properties": {"a": {"$ref": "a.json"}, "b": {"$ref": "b.json"}}}
        docs = [{"doc": {"a": {"id": 1, "b": {"tag": "tt", "a": {"id": 2, "b": {"tag": "uu"}}}}, "b": {"tag": "vv", "a": {"id": 3}}}, "cls": "valid", "path": (), "expect": "ACC"},
                {"doc": {"a": {"id": 1, "b": {"tag": "tt", "a": {"id": 0}}}}, "cls": "bound", "path": ("a", "b", "a", "id"), "expect": "REJ"},
                {"doc": {"a": {"id": 1, "b": {"tag": "tt", "a": {"id": 2, "b": {"tag": "u"}}}}}, "cls": "string", "path": ("a", "b", "a", "b", "tag"), "expect": "REJ"},
                {"doc": {"b": {"a": {"id": 3}}}, "cls": "required", "path": ("b", "tag"), "expect": "REJ"}]
        out.append(Case("c10rf%d" % n, main, docs, fam="recursive-files/%s/two-files" % ("typed" if typed else "root-without-type"),
                        extra_files={"a.json": json.dumps(a), "b.json": json.dumps(b)}, no_model=True))
        n += 1
    return out


def symlink_runs(ctx):
    """a referenced file reached through a directory that is a symbolic link: the file's own relative references (with `..`) resolve against the
    directory the file really lives in, exactly as when the file is named by its real path - the CLI's output for the two spellings is identical, and
    an unrelated file of the same name next to the link is not picked up"""
    from vlib.clirun import Run, run_all, SYMLINK
    types = {"description": "types", "$defs": {"Item": {"type": "object", "properties": {"code": {"$ref": "../base.json#/$defs/Code"}, "n": {"type": "integer"}}, "required": ["code"]}}}
    base = {"description": "base", "$defs": {"Code": {"type": "string", "minLength": 3}}}
    decoy = {"description": "decoy", "$defs": {"Code": {"type": "integer"}}}

    def main(ref):
        return {"$id": "http://x/main", "type": "object", "properties": {"item": {"$ref": ref + "#/$defs/Item"}, "items": {"type": "array", "items": {"$ref": ref + "#/$defs/Item"}}}}
    common = {"shared/lib/types.json": json.dumps(types), "shared/base.json": json.dumps(base), "proj/vendor/base.json": json.dumps(decoy)}
    runs = [("real-path", Run("sl0", dict(common, **{"proj/main.json": json.dumps(main("../shared/lib/types.json"))}), ["-p", "pkg", "proj/main.json"])),
            ("directory-link", Run("sl1", dict(common, **{"proj/main.json": json.dumps(main("vendor/lib/types.json")), "proj/vendor/lib": SYMLINK + "../../shared/lib"}), ["-p", "pkg", "proj/main.json"])),
            ("directory-link-cwd", Run("sl2", dict(common, **{"proj/main.json": json.dumps(main("vendor/lib/types.json")), "proj/vendor/lib": SYMLINK + "../../shared/lib"}), ["-p", "pkg", "main.json"], cwd="proj")),
            ("file-link", Run("sl3", dict(common, **{"proj/main.json": json.dumps(main("vendor/types.json")), "proj/vendor/types.json": SYMLINK + "../../shared/lib/types.json"}), ["-p", "pkg", "proj/main.json"]))]
    run_all(ctx, [r for _, r in runs])
    ref = runs[0][1]
    nv = 0
    for name, r in runs:
        ctx.count({"layout": name}, True, "multi-file/symbolic-links")
        if r.status != 0 or (name != "real-path" and r.stdout != ref.stdout) or b"Code string" not in r.stdout:
            if nv < 3:
                ctx.violation("oracle", {"kind": "cli", "files": {k: (v if isinstance(v, str) else v.decode("utf-8", "replace")).replace("\x00", "<NUL>") for k, v in r.files.items()}, "argv": r.argv, "cwd": r.cwd,
                                         "run": r.describe()},
                              "reference through a symbolic link (%s): status %s, %s" % (name, r.status, "the output differs from the one for the real path" if r.status == 0 else r.stderr.decode("utf-8", "replace")[:200]))
            nv += 1
    return nv


def has_anon_map_value(s):
    """an object schema with properties written inline as the value schema of a property-less object's additionalProperties becomes an anonymous
    struct without unmarshaler (recorded finding C04-anonymous-struct-map-value, D25): the inlined form of such a reference is outside the guard"""
    if isinstance(s, dict):
        ap = s.get("additionalProperties")
        if isinstance(ap, dict) and not s.get("properties") and (ap.get("properties") or ap.get("type") == "object" and isinstance(ap.get("additionalProperties"), dict)):
            return True
        return any(has_anon_map_value(v) for k, v in s.items() if k not in ("enum", "default"))
    if isinstance(s, list):
        return any(has_anon_map_value(v) for v in s)
    return False


def inline_item_constraint(ci, d):
    """is the document's fault a constraint of a primitive array item written inline (never enforced: D9)"""
    if d["cls"] not in ("string", "bound"):
        return False
    path = d["path"]
    if not path:
        return False
    if isinstance(path[-1], int):
        return True
    # the same for the value schema of a property-less object's additionalProperties: an inline primitive map value keeps no validator
    cur = ci.schema
    for p in path[:-1]:
        if not isinstance(cur, dict):
            return False
        if isinstance(p, int):
            cur = cur.get("items", {})
        elif p in cur.get("properties", {}):
            cur = cur["properties"][p]
        else:
            cur = cur.get("additionalProperties", {})
    return isinstance(cur, dict) and not cur.get("properties") and isinstance(cur.get("additionalProperties"), dict) and path[-1] not in cur.get("properties", {})


def render(path, doc):
    return to_yaml(doc) + "\n" if path.endswith((".yaml", ".yml")) else json.dumps(doc)


def run(ctx):
    ctx.proof_step(PROPS_FILE)
    rng = ctx.rng
    pairs = []          # (ref-form case, inline-form case)
    n = 25 if ctx.tier == "quick" else 300
    g = SchemaGen(rng, depth=2, focus=["ref"])
    k = 0
    tries = 0
    while k < n and tries < n * 5:
        tries += 1
        sc = g.root()
        if not defs_of(sc):
            continue
        try:
            inl = inline(sc, {"s.json": sc}, "s.json")
        except (ValueError, KeyError):
            continue
        if has_anon_map_value(inl):
            continue
        dg = Docs(inl, rng)
        docs = []
        seen = set()
        for _k in range(2):
            try:
                dg.maximal = (_k == 0)
                base = dg.valid()
            except ValueError:
                continue
            for cls, path, d in [("valid", (), base)] + dg.mutants(base, CLASSES):
                key = json.dumps(d, sort_keys=True, default=str)
                if key not in seen and len(key) < 1200:
                    seen.add(key)
                    docs.append({"doc": d, "cls": cls, "path": path})
        docs = docs[:60]
        if not docs:
            continue
        pairs.append((Case("c10r%d" % k, sc, copy.deepcopy(docs), fam="ref-vs-inline"), Case("c10i%d" % k, inl, copy.deepcopy(docs), fam="ref-vs-inline")))
        k += 1
    # a document that carries both definition blocks (the legacy one is read only when $defs is absent): same names, different content
    both = {"type": "object", "$defs": {"Label": {"type": "string", "minLength": 2}, "Qty": {"type": "integer", "minimum": 1},
                                        "Box": {"type": "object", "properties": {"l": {"$ref": "#/$defs/Label"}, "inner": {"$ref": "#/$defs/Box"}}, "required": ["l"]}},
            "definitions": {"Label": {"type": "integer", "maximum": 5}, "Qty": {"type": "string"}, "OnlyLegacy": {"type": "boolean"}},
            "properties": {"a": {"$ref": "#/$defs/Label"}, "q": {"$ref": "#/$defs/Qty"}, "ls": {"type": "array", "items": {"$ref": "#/$defs/Label"}}, "b": {"$ref": "#/$defs/Box"}}}
    both_inl = {"type": "object", "properties": {"a": both["$defs"]["Label"], "q": both["$defs"]["Qty"], "ls": {"type": "array", "items": {"$ref": "#/$defs/L2"}},
                                                 "b": {"type": "object", "properties": {"l": both["$defs"]["Label"], "inner": {"type": "object", "properties": {"l": both["$defs"]["Label"]}, "required": ["l"]}}, "required": ["l"]}},
                "$defs": {"L2": both["$defs"]["Label"]}}
    dgb = Docs(both_inl, rng)
    docsb, seenb = [], set()
    for _ in range(3):
        base = dgb.valid()
        for cls, path, d in [("valid", (), base)] + dgb.mutants(base, CLASSES):
            key = json.dumps(d, sort_keys=True, default=str)
            if key not in seenb and "inner" not in json.dumps(d.get("b", {}).get("inner", {}) if isinstance(d, dict) and isinstance(d.get("b"), dict) and isinstance(d["b"].get("inner"), dict) else {}):
                seenb.add(key)
                docsb.append({"doc": d, "cls": cls, "path": path})
    pairs.append((Case("c10both", both, copy.deepcopy(docsb[:80]), fam="both-definition-blocks", no_model=True),
                  Case("c10bothi", both_inl, copy.deepcopy(docsb[:80]), fam="both-definition-blocks", no_model=True)))
    for mi, (name, files, mainp, rext) in enumerate(multi_file_cases(ctx)):
        given = files.pop("__docs__", [])
        inl = inline(files[mainp], files, mainp)
        dg = Docs(inl, rng)
        docs, seen = [{"doc": d, "cls": "valid", "path": ()} for d in given], set()
        for _k in range(3):
            dg.maximal = (_k == 0)
            base = dg.valid()
            for cls, path, d in [("valid", (), base)] + dg.mutants(base, CLASSES):
                key = json.dumps(d, sort_keys=True, default=str)
                if key not in seen:
                    seen.add(key)
                    docs.append({"doc": d, "cls": cls, "path": path})
        docs = docs[:80]
        extra = {p: render(p, d) for p, d in files.items() if p != mainp}
        cr = Case("c10m%d" % mi, files[mainp], copy.deepcopy(docs), fam="multi-file/" + name, extra_files=extra, no_model=True, resolve_ext=rext)
        ci = Case("c10n%d" % mi, inl, copy.deepcopy(docs), fam="multi-file/" + name, no_model=("allOf" in json.dumps(inl)))
        pairs.append((cr, ci))
    rec = []
    for ri, sc in enumerate(recursive_schemas()):
        docs = []
        for depth in range(0, 7):
            for d, cls in deep_docs(sc, depth):
                docs.append({"doc": d, "cls": cls, "path": ("depth", depth)})
        rec.append(Case("c10x%d" % ri, sc, docs, fam="recursive"))
    symlink_runs(ctx)
    from vlib.lookalike import lookalike_cases
    recf = recursive_file_cases() + lookalike_cases("c10", "type") + lookalike_cases("c10s", "string")
    allc = [c for p in pairs for c in p] + rec + recf
    run_cases(ctx, allc, "c10")
    nv = 0
    for c in recf:
        if not c.gen_ok or not c.build_ok:
            if nv < 6:
                ctx.violation("oracle", dict(c.replay_obj(), gen_err=c.gen_err, build_err=c.build_err), "%s: generation failed or the output does not build: %s" % (c.fam, (c.gen_err or c.build_err)[:300]))
            nv += 1
            continue
        ctx.cov["programs"] += 1
        for di, d in enumerate(c.docs):
            o = d.get("obs") or {}
            ctx.count({"f": c.fam, "d": d["doc"]}, True, c.fam)
            if o.get("v") != d["expect"]:
                if nv < 6:
                    ctx.violation("oracle", c.replay_obj(di), "%s: document %s (%s) should be %s, the generated code answers %s %s" % (
                        c.fam, json.dumps(d["doc"])[:200], d["cls"], d["expect"], o.get("v"), (o.get("err") or "")[:150]))
                nv += 1
                break
    for cr, ci in pairs:
        for c in (cr, ci):
            if not c.gen_ok or not c.build_ok:
                if nv < 6:
                    ctx.violation("oracle", dict(c.replay_obj(), gen_err=c.gen_err, build_err=c.build_err), "%s: generation failed or the output does not build: %s"
                                  % (c.fam, (c.gen_err or c.build_err)[:300]))
                nv += 1
        if not (cr.build_ok and ci.build_ok):
            continue
        ctx.cov["programs"] += 2
        for di, (dr, dj) in enumerate(zip(cr.docs, ci.docs)):
            a, b = dr.get("obs"), dj.get("obs")
            if a is None or b is None:
                continue
            ctx.count({"s": cr.schema, "d": dr["doc"]}, True, cr.fam)
            same = a["v"] == b["v"] and (a["v"] != "ACC" or json_eq(json.loads(a["out"]), json.loads(b["out"])))
            if not same and inline_item_constraint(ci, dj):
                continue
            if not same:
                if nv < 6:
                    r = cr.replay_obj(di)
                    r["inline_form"] = ci.schema
                    r["inline_obs"] = b
                    ctx.violation("oracle", r, "%s: document %s: reference form -> %s %s, inlined form -> %s %s"
                                  % (cr.fam, json.dumps(dr["doc"])[:250], a["v"], (a.get("err") or a.get("out", ""))[:120], b["v"], (b.get("err") or b.get("out", ""))[:120]))
                nv += 1
        # one Go type per definition, shared by its referrers
        if cr.fam == "ref-vs-inline":
            tn = [t["name"] for sc in cr.scan.values() for t in sc["types"]]
            if len(tn) != len(set(tn)) and nv < 6:
                ctx.violation("oracle", cr.replay_obj(), "duplicate type declarations %s" % sorted(tn))
                nv += 1
    nv += evaluate(ctx, rec, {"valid", "bound", "string"}, {"valid": "valid", "bound": "invalid", "string": "invalid"}, "recursive references")
    # the tie of the single-file forms with the model
    tie = [(c, di, code) for p in pairs for c in p for di, code in c.mismatches if code != 5 and not c.no_model]
    ctx.cov["model_mismatches"] = ctx.cov.get("model_mismatches", 0) + len(tie)
    if tie and nv == 0:
        c, di, code = tie[0]
        ctx.violation("tie", dict(c.replay_obj(di), correspondence="RunCore.case_mismatches"), "implementation differs from the model (code %s)" % code, no_input=True)
    ctx.cov["disagreements_checked"] += sum(len(c.docs) for c in allc)
    replay_findings(ctx)
    from vlib.clirun import Run, run_all
    for f in ctx.findings():
        w = f.get("witness", {})
        if w.get("kind") == "cli-cwd":
            r = Run("kfcwd", w["files"], w["argv"], cwd=w["cwd"])
            run_all(ctx, [r])
            out = r.stdout.decode("utf-8", "replace")
            bad = [b for b in w.get("bad_stdout", []) if b in out]
            ctx.known(f, r.status != 0 or bool(bad), "status %s %s %s" % (r.status, r.stderr.decode("utf-8", "replace")[:160], bad))
    from vlib import regress
    regress.wide_layouts(ctx, {"C10"})          # the shape-agnostic search step (DESIGN.md 12.8)
    ctx.cov["rule"] = ("ref-vs-inline: random in-guard schemas with definitions, each also with every $ref replaced by a copy of its target; multi-file: definitions in a sibling / "
                       "sub-directory / YAML / extension-less (--resolve-extension) file, whole-file references through a parent directory, and two files that use the same local "
                       "reference text inside allOf with different targets; both forms run on the same schema-directed documents (valid + single-fault); observables: verdict and "
                       "re-marshalled value; recursive: self-, mutual and map recursion decoded at nesting depth 0-6; non-trivial = every document; distinct by hash")
    c = pairs[0][0]
    ctx.sample({"family": c.fam, "schema": c.schema, "doc": c.docs[0]["doc"], "ref_form": (c.docs[0].get("obs") or {}).get("v"), "inline_form": (pairs[0][1].docs[0].get("obs") or {}).get("v")})
