"""C13 - equivalent spellings of a schema generate identical code."""
import itertools
import json

from vlib.clirun import Run, run_all, sha
from vlib.respell import to_yaml_flow, respell, to_yaml
from vlib.schemagen import SchemaGen

PROPS_FILE = "Props/C13.v"

SPECIAL = [
    {"$id": "http://example.com/s", "type": "object", "$defs": {"A": {"type": "object", "properties": {"x": {"type": "string"}}, "additionalProperties": {}},
                                                                "B": {"type": "array", "items": {}}},
     "properties": {"a": {"$ref": "#/$defs/A"}, "b": {"$ref": "#/$defs/B"}, "t": {"type": ["string"]}, "n": {"type": ["integer", "null"]}},
     "dependentSchemas": {"a": {"required": ["b"]}}},
    {"type": "object", "properties": {"1": {"type": "string"}, "true": {"type": "integer"}, "null": {"type": "boolean"}, "1.5": {"type": "number"}, "no": {"type": "string"},
                                      "~": {"type": "string"}, "0x10": {"type": "string"}}},
    {"type": "object", "properties": {"e": {"enum": ["yes", "no", "on", "1", "null", "~"]}, "d": {"type": "string", "default": "true"}, "k": {"type": "string", "default": "12"}}},
]

DUPLICATE_KEYS = [
    '{"$id":"http://example.com/inv","type":"object","properties":{"tags":{"type":"array","items":{"type":"string"},"items":ANY},'
    '"labels":{"type":"object","properties":{"owner":{"type":"string"}},"additionalProperties":{"type":"integer"},"additionalProperties":ANY2}}}',
    '{"type":"object","properties":{"tags":{"type":"array","items":ANY,"items":{"type":"string","minLength":1}},'
    '"labels":{"type":"object","additionalProperties":ANY2,"additionalProperties":{"type":"integer"}}}}',
    '{"type":"object","$defs":{"L":{"type":"array","items":{"type":"object","properties":{"a":{"type":"string"}}},"items":ANY}},'
    '"properties":{"l":{"$ref":"#/$defs/L"},"a":{"type":"string","minLength":2},"a":ANY2,"m":{"type":"object","additionalProperties":{"type":"array","items":{"type":"number"},"items":ANY}}},'
    '"additionalProperties":{"type":"string"},"additionalProperties":ANY2}',
]


def run(ctx):
    ctx.proof_step(PROPS_FILE)
    rng = ctx.rng
    schemas = list(SPECIAL)
    g = SchemaGen(rng, depth=2)
    for _ in range(12 if ctx.tier == "quick" else 150):
        s = g.root()
        if rng.random() < 0.7:
            # ids in the shapes they take in the wild (draft-04 trailing '#', trailing '/', urn, relative, with query and fragment)
            s["$id"] = rng.choice(["http://example.com/gen", "http://example.com/gen#", "http://example.com/gen/", "urn:example:gen", "gen.json", "http://example.com/Gen?x#frag"])
        schemas.append(s)
    schemas.append(dict(SPECIAL[0], **{"$id": "http://example.com/schemas/thing#"}))
    combos = list(itertools.product([False, True], repeat=5))
    if ctx.tier == "quick":
        combos = [c for i, c in enumerate(combos) if i % 3 == 0] + [combos[-1]]
    runs, meta = [], []
    for si, sc in enumerate(schemas):
        idv = sc.get("$id", "")
        # every option keyed by the schema id: the id must be read the same from every spelling
        base_argv = (["-p", "dflt", "--schema-package", "%s=example.com/mapped" % idv, "--schema-output", "%s=-" % idv, "--schema-root-type", "%s=SJson" % idv] if idv else ["-p", "pkg"])
        for ci, (lid, ldef, tl, bs, ldep) in enumerate(combos):
            doc = respell(sc, legacy_id=lid, legacy_defs=ldef, type_list=tl, bool_schema=bs, legacy_deps=ldep)
            runs.append(Run("r%d_%d" % (si, ci), {"in/s.json": json.dumps(doc)}, base_argv + ["in/s.json"]))
            meta.append((si, "json %s" % ((lid, ldef, tl, bs, ldep),)))
        for yi, (style, ext) in enumerate([("block", "yaml"), ("flow", "yaml"), ("block", "yml"), ("bare", "yaml"), ("yamlflow", "yaml")]):
            for variant in (0, 1):
                doc = respell(sc, legacy_id=bool(variant), legacy_defs=bool(variant), type_list=bool(variant))
                text = (to_yaml_flow(doc) if style == "yamlflow" else to_yaml(doc, flow=(style == "flow"), bare_keys=(style == "bare"))) + "\n"
                # the root type name comes from the file name: keep it s.json-like by mapping the root type
                runs.append(Run("y%d_%d_%d" % (si, yi, variant), {"in/s.%s" % ext: text},
                                base_argv + ["--schema-root-type", "%s=SJson" % idv, "--schema-output", "%s=-" % idv, "in/s.%s" % ext]))
                meta.append((si, "yaml-%s-%s-%d" % (style, ext, variant)))
        # the same JSON value in other layouts of white space (pretty-printed, blanks before colons and commas, tabs, CRLF line ends)
        for fi, text in enumerate((json.dumps(respell(sc, legacy_id=True, legacy_defs=True), indent=2, separators=(" ,", " : ")),
                                   json.dumps(respell(sc, legacy_id=True, legacy_defs=True), indent="\t").replace("\n", "\r\n"),
                                   json.dumps(sc, indent=1, separators=(" , ", " :  ")), "\n\n  " + json.dumps(sc, separators=(",", ":")) + "  \n")):
            runs.append(Run("w%d_%d" % (si, fi), {"in/s.json": text}, base_argv + ["in/s.json"]))
            meta.append((si, "json-layout-%d" % fi))
        # the JSON twin of the YAML runs (same root-type mapping)
        runs.append(Run("j%d" % si, {"in/s.json": json.dumps(sc)}, base_argv + ["--schema-root-type", "%s=SJson" % idv, "--schema-output", "%s=-" % idv, "in/s.json"]))
        meta.append((si, "json-mapped"))
    # multi-file: references without extension, resolved through --resolve-extension, to JSON or YAML siblings
    multi = [
        ({"$id": "http://x/main", "type": "object", "properties": {"p": {"$ref": "common#/$defs/Person"}, "q": {"$ref": "sub/other#/definitions/Thing"}}, "required": ["p"]},
         {"common": {"description": "shared", "$defs": {"Person": {"type": "object", "properties": {"name": {"type": "string", "minLength": 1}, "1": {"type": "integer"}}, "required": ["name"]}}},
          "sub/other": {"description": "more", "definitions": {"Thing": {"type": "string", "enum": ["a", "b"]}}}}),
        ({"$id": "http://x/main", "type": "object", "properties": {"p": {"$ref": "lib/types#/$defs/T"}, "l": {"type": "array", "items": {"$ref": "lib/types#/$defs/U"}}}},
         {"lib/types": {"description": "lib", "$defs": {"T": {"type": "object", "properties": {"u": {"$ref": "#/$defs/U"}}}, "U": {"type": "integer", "minimum": 0}}}}),
        # base names that contain a dot themselves: the reference as written then seems to end in an extension (".v1") that is none
        ({"$id": "http://x/main", "type": "object", "properties": {"p": {"$ref": "./common.v1#/$defs/Person"}, "t": {"$ref": "lib/types.v2.draft#/$defs/T"}, "w": {"$ref": "whole.v3"}}, "required": ["p"]},
         {"common.v1": {"description": "shared", "$defs": {"Person": {"type": "object", "properties": {"name": {"type": "string", "minLength": 1}}, "required": ["name"]}}},
          "lib/types.v2.draft": {"description": "lib", "$defs": {"T": {"type": "integer", "minimum": 0}}},
          "whole.v3": {"type": "object", "properties": {"k": {"type": "string"}}}}),
    ]
    for mi, (main, sibs) in enumerate(multi):
        si = len(schemas)
        for ext, render in ((".json", json.dumps), (".yaml", lambda d: to_yaml(d) + "\n"), (".yml", lambda d: to_yaml(d, bare_keys=True) + "\n")):
            for legacy in (False, True):
                files = {"in/main" + ext: render(respell(main, legacy_id=legacy, legacy_defs=legacy))}
                for name, doc in sibs.items():
                    files["in/%s%s" % (name, ext)] = render(respell(doc, legacy_defs=legacy, type_list=legacy))
                yext = ["--yaml-extension", ext] if ext != ".json" else []
                runs.append(Run("m%d_%s_%d" % (mi, ext[1:], legacy), files,
                                ["-p", "pkg", "--resolve-extension", ext, "--schema-root-type", "http://x/main=Main", "--schema-output", "http://x/main=-"] + yext + ["in/main" + ext]))
                meta.append((si, "multi %s legacy=%s" % (ext, legacy)))
        schemas.append(main)
    # the root type name derived from the file name: JSON and YAML files of one base name, with the extension list given dotted and dot-less, no root-type mapping
    for oi, sc in enumerate(list(SPECIAL[:2]) + schemas[len(SPECIAL):len(SPECIAL) + 4]):
        si = len(schemas)
        sc = {k: v for k, v in sc.items() if k not in ("$id", "id")}
        for ext, render in (("json", json.dumps), ("yaml", lambda d: to_yaml(d) + "\n")):
            for dotted in (True, False):
                exts = [("." if dotted else "") + e for e in ("json", "yaml")]
                argv = ["-p", "pkg", "--resolve-extension", exts[0], "--resolve-extension", exts[1], "--yaml-extension", ".yaml", "in/order." + ext]
                runs.append(Run("fn%d_%s_%d" % (oi, ext, dotted), {"in/order." + ext: render(sc)}, argv))
                meta.append((si, "file-name %s %s" % (ext, "dotted" if dotted else "dot-less")))
        schemas.append(sc)
    # the two pointer prefixes mixed inside ONE document whose nodes collide on a Go name: the definition `OrderLine` and the inline property `line` of
    # `Order` are the same schema (each refers to `Money`); written with different prefixes they are still the same schema
    def collide_doc(block, p1, p2):
        money = {"type": "object", "properties": {"amount": {"type": "number"}, "currency": {"type": "string"}}}
        return {"type": "object", block: {"Money": money, "OrderLine": {"type": "object", "properties": {"price": {"$ref": "#/%s/Money" % p1}, "qty": {"type": "integer"}}},
                                          "Order": {"type": "object", "properties": {"line": {"type": "object", "properties": {"price": {"$ref": "#/%s/Money" % p2}, "qty": {"type": "integer"}}}}}},
                "properties": {"o": {"$ref": "#/%s/Order" % p1}, "extra": {"$ref": "#/%s/OrderLine" % p2}}}
    si = len(schemas)
    for vn, (block, p1, p2) in {"current": ("$defs", "$defs", "$defs"), "legacy": ("definitions", "definitions", "definitions"), "mixed-a": ("$defs", "$defs", "definitions"),
                                "mixed-b": ("$defs", "definitions", "$defs"), "mixed-c": ("definitions", "definitions", "$defs")}.items():
        runs.append(Run("cm_%s" % vn.replace("-", ""), {"in/s.json": json.dumps(collide_doc(block, p1, p2))}, ["-p", "pkg", "in/s.json"]))
        meta.append((si, "prefix-mix %s" % vn))
    schemas.append(collide_doc("$defs", "$defs", "$defs"))
    # YAML files whose extension is written in upper or mixed case and registered in that same spelling
    for oi, sc in enumerate(list(SPECIAL[:1]) + schemas[len(SPECIAL):len(SPECIAL) + 2]):
        si = len(schemas)
        sc = {k: v for k, v in sc.items() if k not in ("$id", "id")}
        runs.append(Run("ux%d_json" % oi, {"in/order.json": json.dumps(sc)}, ["-p", "pkg", "--resolve-extension", ".json", "in/order.json"]))
        meta.append((si, "file-name json (extension-case twin)"))
        for ext in (".YML", ".Yaml", ".YAML"):
            runs.append(Run("ux%d_%s" % (oi, ext[1:]), {"in/order" + ext: to_yaml(sc) + "\n"}, ["-p", "pkg", "--resolve-extension", ext, "--yaml-extension", ext, "in/order" + ext]))
            meta.append((si, "file-name yaml extension %s" % ext))
        schemas.append(sc)
    # documents in which a keyword occurs twice in one object (legal JSON, the last occurrence counts): the anything-schema as `true` and as `{}` in either place
    for ti, tpl in enumerate(DUPLICATE_KEYS):
        si = len(schemas)
        for first, second in (("true", "{}"), ("{}", "true"), ("true", "true"), ("{}", "{}")):
            text = tpl.replace("ANY2", second).replace("ANY", first)
            runs.append(Run("dk%d_%s%s" % (ti, "t" if first == "true" else "e", "t" if second == "true" else "e"), {"in/s.json": text}, ["-p", "pkg", "in/s.json"]))
            meta.append((si, "duplicate-keys %s/%s" % (first, second)))
        schemas.append({"raw": tpl})
    run_all(ctx, runs)
    by = {}
    for r, (si, vn) in zip(runs, meta):
        by.setdefault(si, []).append((vn, r))
    nv = 0
    for si, lst in sorted(by.items()):
        ctx.cov["programs"] += 1
        groups = {"plain": {}, "mapped": {}}
        for vn, r in lst:
            ctx.count({"s": schemas[si], "v": vn}, True, "respelling/" + ("special" if si < len(SPECIAL) else ("multi-file" if vn.startswith("multi") else ("file-name" if vn.startswith("file-name") else "random"))))
            grp = "mapped" if (vn.startswith("yaml") or vn == "json-mapped") else "plain"
            if vn.startswith("multi") and r.status != 0 and nv < 6:
                ctx.violation("oracle", {"kind": "respelling", "files": {k: v for k, v in r.files.items()}, "argv": r.argv, "stderr": r.stderr.decode("utf-8", "replace")[:300]},
                              "multi-file spelling %s is refused: %s" % (vn, r.stderr.decode("utf-8", "replace")[:200]))
                nv += 1
            groups[grp].setdefault((r.status, sha(r.stdout)), []).append(vn)
        for grp, outs in groups.items():
            if len(outs) > 1 and nv < 6:
                ks = list(outs)
                r0 = [r for vn, r in lst if vn == outs[ks[1]][0]][0]
                ctx.violation("oracle", {"kind": "respelling", "schema": schemas[si], "files": {k: (v if isinstance(v, str) else v.decode()) for k, v in r0.files.items()}, "argv": r0.argv,
                                         "groups": {str(k): v[:6] for k, v in outs.items()}, "stderr": r0.stderr.decode("utf-8", "replace")[:300]},
                              "spellings %s produce different output than %s" % (outs[ks[1]][:3], outs[ks[0]][:3]))
                nv += 1
    ctx.cov["disagreements_checked"] = len(runs)
    from vlib import regress
    regress.wide_spellings(ctx)          # the shape-agnostic search step (DESIGN.md 12.8)
    ctx.cov["rule"] = ("3 special schemas (all re-spellable keywords at once; numeric / boolean / null-looking property names; enum and default strings that look like YAML "
                       "scalars) + random in-guard schemas; each in 2^5 JSON re-spellings (id/$id, definitions/$defs with matching $ref prefix, type string/list, true/{}, "
                       "dependencies/dependentSchemas; every third one in the quick tier) and as YAML in block and flow style with .yaml/.yml extension in current and legacy "
                       "spelling; JSON and YAML files of one base name with dotted and dot-less --resolve-extension lists and no root-type mapping; stdout compared byte for byte; non-trivial = every run; distinct by hash of (schema, spelling)")
    ctx.sample({"family": "respelling", "schema": schemas[0], "spellings": [m[1] for m in meta[:4]], "sha": sha(runs[0].stdout)})


def replay(ctx, path):
    obj = json.load(open(path))
    case = obj.get("case", {})
    r = Run("rp", case["files"], case["argv"])
    run_all(ctx, [r])
    print(json.dumps(r.describe(), indent=1)[:3000])
