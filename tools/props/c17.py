"""C17 - UnmarshalYAML enforces the same rules as UnmarshalJSON."""
import copy
import json

from vlib.valuecheck import build_cases, replay, replay_findings  # noqa: F401
from vlib.kitchen import run_cases, Case, json_eq
from props import c05, c06, c04, c08, c09

PROPS_FILE = "Props/C17.v"
# valid documents and documents with exactly one required / bound / length / pattern / string-enum fault
CLASSES = {"valid", "required", "required-default", "bound", "number-valid", "string", "string-valid", "enum", "enum-member", "optional-absent",
           "items", "items-valid", "null-allowed"}


def in_scope(c, d):
    """the single-fault classes the property names; enum faults only with string values on string enums"""
    if d["cls"] == "enum":
        from vlib.valuecheck import site_schema
        sc = site_schema(c, d["path"])
        v = d["doc"]
        for p in d["path"]:
            v = v[p]
        return isinstance(v, str) and all(isinstance(e, str) for e in sc.get("enum", []))
    return True


def strip_numeric_enums(s, under_items=False):
    """guard: no numeric members in untyped enums (YAML yields int, the table holds float64: finding D15); array items are
    not enums listing null (YAML drops those null elements: finding D32)"""
    if isinstance(s, dict):
        if under_items and "enum" in s and any(e is None for e in s["enum"]):
            s["enum"] = [e for e in s["enum"] if e is not None] or ["only"]
        for k, v in s.items():
            if k == "items":
                strip_numeric_enums(v, True)
        if False:
            pass
        if "enum" in s and "type" not in s and any(isinstance(e, (int, float)) and not isinstance(e, bool) for e in s["enum"]):
            s["enum"] = [e for e in s["enum"] if isinstance(e, str)] or ["only"]
        for k, v in s.items():
            if k != "items":
                strip_numeric_enums(v, False)
    elif isinstance(s, list):
        for v in s:
            strip_numeric_enums(v, under_items)


def canon(d, in_iface=False):
    """structural dump with numbers held in interface{} compared by value (JSON yields float64, YAML int: same number)"""
    from fractions import Fraction
    if isinstance(d, dict):
        if in_iface and set(d) == {"i"}:
            return {"n": str(Fraction(d["i"]))}
        if in_iface and set(d) == {"f"}:
            return {"n": str(Fraction(float(d["f"])))}
        return {k: canon(v, in_iface or k == "iface") for k, v in d.items()}
    if isinstance(d, list):
        return [canon(x, in_iface) for x in d]
    return d


def prop_names(s, acc=None):
    acc = set() if acc is None else acc
    if isinstance(s, dict):
        for k, v in s.get("properties", {}).items() if isinstance(s.get("properties"), dict) else ():
            acc.add(k)
        for v in s.values():
            prop_names(v, acc)
    elif isinstance(s, list):
        for v in s:
            prop_names(v, acc)
    return acc


def two_package_runs(ctx):
    """one run that emits two Go packages, each declaring a type of the same name (`Limits`) with its own rules and defaults: in each package the YAML
    method enforces what the JSON method of that package enforces"""
    from vlib.progs import Batch
    b = Batch(ctx, "c17pk")
    meta = []

    def sch(idv, mx, hi, dflt):
        return {"$id": idv, "type": "object", "definitions": {"limits": {"type": "object", "properties": {"name": {"type": "string", "maxLength": mx}, "level": {"type": "integer", "minimum": 0, "maximum": hi, "default": dflt}},
                                                                      "required": ["name"]}},
                "properties": {"limits": {"$ref": "#/definitions/limits"}}}
    v1, v2 = sch("http://x/v1", 5, 10, 1), sch("http://x/v2", 10, 100, 2)
    docs = [{"limits": {"name": "abc"}}, {"limits": {"name": "abcdefgh"}}, {"limits": {"name": "abc", "level": 50}}, {"limits": {"name": "abc", "level": 7}}, {"limits": {"level": 3}},
            {"limits": {"name": "abcdefghijkl"}}, {"limits": {"name": "abc", "level": 500}}, {}]
    n = 0
    for argv in (["v1.json", "v2.json"], ["v2.json", "v1.json"]):
        cid = "c17pk%d" % n
        n += 1
        cfg = {"tags": ["json", "yaml", "mapstructure"], "extra_imports": True, "default_package": "prog/%s/p1" % cid, "default_output": cid + "/p1/gen.go",
               "mappings": [{"id": "http://x/v1", "root": "", "package": "prog/%s/p1" % cid, "output": cid + "/p1/gen.go"},
                            {"id": "http://x/v2", "root": "", "package": "prog/%s/p2" % cid, "output": cid + "/p2/gen.go"}]}
        jobs = []
        for pk, root in (("p1", "V1Json"), ("p2", "V2Json")):
            for d in docs:
                for wire in ("json", "yaml"):
                    jobs.append({"t": "%s/%s.%s" % (cid, pk, root), "doc": json.dumps(d), "wire": wire, "prior": ""})
        c = b.add({"id": cid, "cfg": cfg, "files": {"v1.json": json.dumps(v1), "v2.json": json.dumps(v2)}, "argv": argv, "jobs": jobs})
        meta.append((c, argv))
    b.run()
    nv = 0
    for c, argv in meta:
        r = {"kind": "batch", "cfg": c["cfg"], "files": c["files"], "argv": c["argv"]}
        if not c["gen"].get("ok") or not c["build_ok"]:
            ctx.violation("oracle", dict(r, gen=c["gen"].get("err"), build_err=c["build_err"]), "two packages in one run: generation failed or the output does not build: %s" % (c["gen"].get("err") or c["build_err"] or "")[:300])
            nv += 1
            continue
        ctx.cov["programs"] += 1
        for jj, jy in zip(c["jobs"][0::2], c["jobs"][1::2]):
            oj, oy = jj.get("obs") or {}, jy.get("obs") or {}
            ctx.count({"argv": argv, "t": jj["t"].split("/", 1)[1], "d": jj["doc"]}, True, "json-vs-yaml/two-packages")
            same = oj.get("v") == oy.get("v") and (oj.get("v") != "ACC" or json.dumps(canon(oj.get("dump")), sort_keys=True) == json.dumps(canon(oy.get("dump")), sort_keys=True))
            if not same:
                if nv < 3:
                    ctx.violation("oracle", dict(r, type=jj["t"], doc=jj["doc"], json_path=oj, yaml_path=oy),
                                  "two packages in one run (arguments %s), %s, document %s: UnmarshalJSON -> %s %s, UnmarshalYAML -> %s %s"
                                  % (argv, jj["t"].split("/", 1)[1], jj["doc"], oj.get("v"), (oj.get("err") or json.dumps(oj.get("dump")))[:120], oy.get("v"), (oy.get("err") or json.dumps(oy.get("dump")))[:120]))
                nv += 1
    return nv


def run(ctx):
    ctx.proof_step(PROPS_FILE)
    two_package_runs(ctx)
    n = 40 if ctx.tier == "quick" else 500
    sysm = []
    sysm += c06.systematic()[::3] + [x for x in c06.systematic() if '%' in json.dumps(x)] + c04.systematic()[::9] + c05.e2e_systematic(ctx)[::7] + c05.e2e_fractional() + [r for r in c08.systematic()[::4]] + [x[0] for x in c09.systematic()[::5]]
    # keys that are delicate for one of the two decoders (struct-tag syntax, YAML plain scalars): required and optional, with constraints
    for keys in (["-", "plain"], ["yes", "null", "0"], ["a b", "x:y", "#c", "~t"], ["-", "yes", "a b", "other"], ["id", "path\\name"], ["tab\\there", "ok", "back\\\\slash"], ["cpu%", "mem"], ["100%d", "a%sb", "%", "ok"]):
        # (the last two: names outside the guard of C14 - neither decoder binds them on the unchanged tree - that still compile; only the agreement of the two decoders is judged)
        for req in (True, False):
            props = {}
            for i, k in enumerate(keys):
                props[k] = [{"type": "integer", "minimum": 1, "maximum": 9}, {"type": "string", "minLength": 2}, {"type": "number", "exclusiveMinimum": 0}, {"type": "boolean"}][i % 4]
            root = {"type": "object", "properties": props}
            if req:
                root["required"] = list(keys)
            sysm.append(root)
            sysm.append({"type": "object", "properties": {"inner": root, "list": {"type": "array", "items": root}}})
    # types named like the identifiers of the method templates next to a type with typed additionalProperties (the block refers to `Plain` literally)
    for dn in ("plain", "Plain", "raw"):
        sysm.append({"type": "object", "$defs": {dn: {"type": "object", "properties": {"text": {"type": "string", "minLength": 1}}, "required": ["text"]}},
                     "properties": {"name": {"type": "string"}, "note": {"$ref": "#/$defs/" + dn}}, "additionalProperties": {"type": "integer"}, "required": ["name"]})
        sysm.append({"type": "object", "$defs": {dn: {"type": "object", "properties": {"text": {"type": "string"}, "n": {"type": "integer"}}, "additionalProperties": {"type": "string"}}},
                     "properties": {"inner": {"$ref": "#/$defs/" + dn}, "list": {"type": "array", "items": {"$ref": "#/$defs/" + dn}}}})
    for s in sysm:
        strip_numeric_enums(s)
    base = build_cases(ctx, len(sysm) + n, None, CLASSES, "c17x", extra_schemas=sysm, docs_per=2,
                       gen_kwargs={"allow_formats": False}, max_docs=50, schema_hook=strip_numeric_enums)
    cases = []
    for c in base:
        strip_numeric_enums(c.schema)
        docs = [d for d in c.docs if in_scope(c, d)]
        dash = '"-"' in json.dumps(c.schema) or any(ch in k for k in prop_names(c.schema) for ch in '\\",')      # a required key "-" is not bound by either decoder (finding C02-required-dash-key): only the JSON/YAML agreement is judged
        cj = Case(c.cid + "j", c.schema, copy.deepcopy(docs), extra_imports=True, wire="json", fam=c.fam, no_model=dash)
        cy = Case(c.cid + "y", c.schema, copy.deepcopy(docs), extra_imports=True, wire="yaml", fam=c.fam)
        cases += [cj, cy]
    # the same comparison under tag lists that do not name yaml (yaml.v3 then binds a key to the field whose lower-cased Go name it is): schemas
    # whose keys are single lower-case words keep the same rules through both decoders
    import re as _re
    nt = 0
    for c in base:
        names = prop_names(c.schema)
        if nt >= (24 if ctx.tier == "quick" else 120) or not names or not all(_re.match(r"^[a-z][a-z0-9]*$", k) for k in names):
            continue
        if '"$defs"' in json.dumps(c.schema) and not all(_re.match(r"^[A-Za-z][A-Za-z0-9]*$", k) for k in c.schema.get("$defs", {})):
            continue
        docs = [d for d in c.docs if in_scope(c, d)]
        tags = [["json"], ["json", "mapstructure"], ["mapstructure", "json", "toml"]][nt % 3]
        cases += [Case(c.cid + "tj", c.schema, copy.deepcopy(docs), extra_imports=True, wire="json", fam="tags-without-yaml/" + c.fam, no_model=True, tags=tags),
                  Case(c.cid + "ty", c.schema, copy.deepcopy(docs), extra_imports=True, wire="yaml", fam="tags-without-yaml/" + c.fam, no_model=True, tags=tags)]
        nt += 1
    run_cases(ctx, cases, "c17")
    nv = 0
    stats = {"same": 0, "ACC": 0, "REJ": 0}
    for cj, cy in zip(cases[0::2], cases[1::2]):
        if not cj.gen_ok or not cj.build_ok:
            ctx.violation("oracle", dict(cj.replay_obj(), build_err=cj.build_err, gen_err=cj.gen_err), "generation with --extra-imports failed or does not compile: %s" % (cj.gen_err or cj.build_err)[:300])
            nv += 1
            continue
        ctx.cov["programs"] += 1
        for di, (dj, dy) in enumerate(zip(cj.docs, cy.docs)):
            oj, oy = dj.get("obs"), dy.get("obs")
            if oj is None or oy is None:
                continue
            ctx.count({"s": cj.schema, "d": dj["doc"]}, True, "json-vs-yaml/" + cj.fam)
            same = oj["v"] == oy["v"] and (oj["v"] != "ACC" or json.dumps(canon(oj.get("dump")), sort_keys=True) == json.dumps(canon(oy.get("dump")), sort_keys=True))
            stats["same"] += same
            stats[oj["v"] if oj["v"] in stats else "REJ"] += 1
            if oj["v"] in ("PANIC", "FATAL") or oy["v"] in ("PANIC", "FATAL"):
                if nv < 6:
                    ctx.violation("oracle", cy.replay_obj(di), "panic while decoding %s (json: %s, yaml: %s)" % (json.dumps(dj["doc"])[:200], oj["v"], oy["v"]))
                nv += 1
            elif not same:
                if nv < 6:
                    r = cy.replay_obj(di)
                    r["json_path"] = oj
                    ctx.violation("oracle", r, "document %s (%s): UnmarshalJSON -> %s %s, UnmarshalYAML -> %s %s"
                                  % (json.dumps(dj["doc"])[:300], dj["cls"], oj["v"], (oj.get("err") or json.dumps(oj.get("dump")))[:150],
                                     oy["v"], (oy.get("err") or json.dumps(oy.get("dump")))[:150]))
                nv += 1
        # the JSON side is also tied to the model
        for di, code in cj.mismatches:
            if code != 5 and nv == 0:
                ctx.violation("tie", dict(cj.replay_obj(di), correspondence="RunCore.case_mismatches"), "JSON path differs from the model", no_input=True)
                nv += 1
    ctx.cov["agreement"] = stats
    ctx.cov["disagreements_checked"] += sum(len(c.docs) for c in cases) // 2
    replay_findings(ctx)
    for f in ctx.findings():
        w = f.get("witness", {})
        if w.get("kind") == "c17-pair":
            a = Case("kfj", w["schema"], [{"doc": w["doc"], "cls": "finding", "path": ()}], extra_imports=True, wire="json")
            b = Case("kfy", w["schema"], [{"doc": w["doc"], "cls": "finding", "path": ()}], extra_imports=True, wire="yaml")
            run_cases(ctx, [a, b], "c17kf")
            oj, oy = a.docs[0].get("obs") or {}, b.docs[0].get("obs") or {}
            differs = oj.get("v") != oy.get("v") or json.dumps(canon(oj.get("dump")), sort_keys=True) != json.dumps(canon(oy.get("dump")), sort_keys=True)
            ctx.known(f, differs, "json %s yaml %s" % (oj.get("v"), oy.get("v")))
    from vlib import regress
    regress.wide_yaml(ctx)          # the shape-agnostic search step (DESIGN.md 12.8)
    ctx.cov["rule"] = ("programs generated with --extra-imports from the systematic families of C04/C05/C06/C08/C09 (thinned) and random in-guard schemas (no formats, no numeric "
                       "members in untyped enums); every valid document and every single required/bound/length/pattern/string-enum fault decoded from the same bytes through "
                       "json.Unmarshal and yaml.Unmarshal; observables: verdict and the structural dump of the decoded value; non-trivial = every document; distinct by hash")
    c = cases[1]
    ctx.sample({"family": c.fam, "schema": c.schema, "doc": c.docs[0]["doc"], "json": (cases[0].docs[0].get("obs") or {}).get("v"), "yaml": (c.docs[0].get("obs") or {}).get("v")})
