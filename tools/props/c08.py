"""C08 - enum values are exactly the accepted set."""
import itertools
import json

from vlib.valuecheck import build_cases, evaluate, replay, site_schema, collide_root  # noqa: F401
from vlib.kitchen import run_cases, json_eq, Docs

PROPS_FILE = "Props/C08.v"
LISTS = {
    "str": ["red", "green", "dark red"], "str1": ["only"], "str5": ["a", "b", "c", "d", "e"], "int": [1, 2, 3], "int2": [0, 10], "num": [0.5, 1, 2.25],
    "bool": [True], "mixed": ["a", 1, True, 2.5], "null-mixed": ["a", None, 1], "null-first": [None, "x", "y"], "strnum": ["1", "2"],
    "bool-and-its-spelling": [True, False, "true", "false"], "num-and-its-spelling": [1, 2, "1", "2"], "null-and-its-spelling": [None, "<nil>", "null"],
    "repeated": ["a", "b", "a"],
    # values whose rendering as Go literals / constant names is delicate
    "percent": ["50%discount", "100% sure", "%d", "a%sb%"], "escapes": ["a\"b", "back\\slash", "tab\there", "new\nline", "uni\u00e9", "`tick`", "$x{y}"],
}
TYPES = {"str": "string", "str1": "string", "str5": "string", "int": "integer", "int2": "integer", "num": "number", "bool": "boolean", "strnum": "string", "percent": "string", "escapes": "string"}


def systematic():
    out = []
    for name, vals in LISTS.items():
        for typed in (True, False):
            if typed and name not in TYPES:
                continue
            e = {"enum": list(vals)}
            if typed:
                e["type"] = TYPES[name]
            for pos in ("required", "optional", "ref", "item", "item-ref", "default", "nested", "def-array-item", "def-map-value", "map-value", "item2"):
                if pos in ("ref", "item-ref") and not typed:
                    continue                      # an untyped enum definition is read as anything through a reference (D28)
                if pos in ("map-value", "def-map-value") and not typed:
                    continue                      # a wrapped enum as a map value does not marshal back (finding C02-wrapped-enum-map-value)
                if pos == "required":
                    root = {"type": "object", "properties": {"e": e}, "required": ["e"]}
                elif pos == "optional":
                    root = {"type": "object", "properties": {"e": e}}
                elif pos == "ref":
                    root = {"type": "object", "properties": {"e": {"$ref": "#/$defs/E"}}, "$defs": {"E": e}}
                elif pos == "item":
                    root = {"type": "object", "properties": {"l": {"type": "array", "items": e}}}
                elif pos == "item-ref":
                    root = {"type": "object", "properties": {"l": {"type": "array", "items": {"$ref": "#/$defs/E"}}}, "$defs": {"E": e}}
                elif pos == "def-array-item":
                    root = {"type": "object", "properties": {"l": {"$ref": "#/$defs/Pal"}}, "$defs": {"Pal": {"type": "array", "items": e}}}
                elif pos == "def-map-value":
                    root = {"type": "object", "properties": {"m": {"$ref": "#/$defs/W"}}, "$defs": {"W": {"type": "object", "additionalProperties": e}}}
                elif pos == "map-value":
                    root = {"type": "object", "properties": {"m": {"type": "object", "additionalProperties": e}}}
                elif pos == "item2":
                    root = {"type": "object", "properties": {"g": {"type": "array", "items": {"type": "array", "items": e}}}}
                elif pos == "default":
                    if name not in ("str", "str5"):
                        continue
                    root = {"type": "object", "properties": {"e": dict(e, default=vals[1])}}
                else:
                    root = {"type": "object", "properties": {"o": {"type": "object", "properties": {"e": e}, "required": ["e"]}}}
                out.append(root)
    # inline enum types whose Go names collide
    # (the last five: lists that differ only in the JSON type of their values, or in where one value ends, and read alike when printed)
    for a, b in ((["a", "b"], ["b", "c"]), ([1, 2], [2, 3]), (["x"], ["x", "y"]), ([10, 20, 50], ["10", "20", "50"]), ([True, False], ["true", "false"]),
                 ([1.5, "a"], ["1.5", "a"]), (["a b", "c"], ["a", "b c"]), ([1, 2], [1.0, 2.0, "1"])):
        out.append(collide_root({"enum": a}, {"enum": b}, key="e"))
        if all(type(x) is type(a[0]) for x in a + b):
            out.append(collide_root({"type": "string" if isinstance(a[0], str) else "integer", "enum": b}, {"type": "string" if isinstance(a[0], str) else "integer", "enum": a}, key="e", required=True))
    return out


CLASSES = {"enum", "enum-member", "valid", "optional-absent"}


def nullable_enum_cases():
    """enums whose type is [T, "null"] (both orders) and whose list names null: null is a member - at a required property, an array item and a definition - and
    the other members and non-members behave as without the null"""
    from vlib.kitchen import Case
    out = []
    n = 0
    for t, vals, non in (("string", ["auto", "manual"], ["other", 1, True]), ("integer", [1, 2], [3, "1", 1.5]), ("number", [0.5, 2], [1, "0.5"]), ("boolean", [True], [False, "true"])):
        for tl in ([t, "null"], ["null", t]):
            for with_null in (True, False):
                e = {"type": tl, "enum": vals + ([None] if with_null else [])}
                root = {"type": "object", "$defs": {"E": e}, "properties": {"mode": e, "modes": {"type": "array", "items": e}, "r": {"$ref": "#/$defs/E"}}, "required": ["mode"]}
                docs = []
                for v in vals:
                    docs.append({"doc": {"mode": v, "modes": [v]}, "cls": "enum-member", "path": ("mode",), "expect": "ACC"})
                    docs.append({"doc": {"mode": vals[0], "r": v}, "cls": "enum-member", "path": ("r",), "expect": "ACC"})
                for v in non:
                    docs.append({"doc": {"mode": v}, "cls": "enum", "path": ("mode",), "expect": "REJ"})
                    docs.append({"doc": {"mode": vals[0], "modes": [vals[0], v]}, "cls": "enum", "path": ("modes", 1), "expect": "REJ"})
                if with_null:
                    docs.append({"doc": {"mode": None, "modes": []}, "cls": "enum-member", "path": ("mode",), "expect": "ACC"})
                    docs.append({"doc": {"mode": vals[0], "modes": [vals[-1], None]}, "cls": "enum-member", "path": ("modes", 1), "expect": "ACC"})
                out.append(Case("c08ne%d" % n, root, docs, fam="nullable-enum/%s/%s/%s" % (t, "null-last" if tl[1] == "null" else "null-first", "lists-null" if with_null else "no-null")))
                n += 1
    return out


def fractional_integer_enum_cases():
    """integer enums whose list also holds a value that is not an integer (it can never be matched: the type keyword excludes it): the integral
    members are exactly the accepted set, wherever the odd value stands in the list - at a required property, an array item and a definition; in
    particular the odd value's integer part is not a member (repaired defect D57, fixed entry C08-integer-enum-fractional-member)."""
    from vlib.kitchen import Case
    out = []
    n = 0
    # (the last three lists: members beyond 32 bits - byte sizes, epoch milliseconds, 2^53 - which the Go int of the table holds all the same)
    for vals in ([1, 2.5, 3], [0.5, 10, 20], [7, 9, 11.25], [4, 1.5, 6, 8.75, 12], [2.5], [1, 4294967296, -3000000000], [2147483647, 2147483648, -2147483649], [1700000000000, 9007199254740992]):
        e = {"type": "integer", "enum": vals}
        root = {"type": "object", "$defs": {"E": e}, "properties": {"level": e, "steps": {"type": "array", "items": e}, "r": {"$ref": "#/$defs/E"}}}
        members = [v for v in vals if float(v).is_integer()]
        truncs = set(int(v) for v in vals if not float(v).is_integer())
        docs = []
        for v in members:
            docs.append({"doc": {"level": v}, "cls": "enum-member", "path": ("level",), "expect": "ACC"})
            docs.append({"doc": {"steps": [v, v]}, "cls": "enum-member", "path": ("steps", 0), "expect": "ACC"})
            docs.append({"doc": {"r": v}, "cls": "enum-member", "path": ("r",), "expect": "ACC"})
        if members:
            docs.append({"doc": {"steps": members + members[::-1]}, "cls": "enum-member", "path": ("steps",), "expect": "ACC"})
        for v in [x for x in (5, 13, 100, -1) if x not in members] + sorted(t for t in truncs if t not in members) + [x for x in vals if not float(x).is_integer()] + ["1", True]:
            docs.append({"doc": {"level": v}, "cls": "enum", "path": ("level",), "expect": "REJ"})
            docs.append({"doc": {"steps": [v]}, "cls": "enum", "path": ("steps", 0), "expect": "REJ"})
        out.append(Case("c08fe%d" % n, root, docs, fam="integer-enum-with-a-fractional-value/%d" % n))
        n += 1
    return out


def get_path(doc, path):
    for p in path:
        if isinstance(doc, dict):
            if p not in doc:
                return None, False
            doc = doc[p]
        elif isinstance(doc, list):
            if not isinstance(p, int) or p >= len(doc):
                return None, False
            doc = doc[p]
        else:
            return None, False
    return doc, True


def run(ctx):
    ctx.proof_step(PROPS_FILE)
    from vlib.pairwise import pairwise
    sysm = systematic() + [r for _, r in pairwise(only={"enum"})]
    n = 20 if ctx.tier == "quick" else 300
    cases = build_cases(ctx, len(sysm) + n, ["enum"], CLASSES | {"type"}, "c08x", extra_schemas=sysm, docs_per=2 if ctx.tier == "quick" else 3)
    from vlib.lookalike import lookalike_cases
    ne = nullable_enum_cases() + fractional_integer_enum_cases() + lookalike_cases("c08", "enum")
    run_cases(ctx, cases + ne, "c08")
    nne = 0
    for c in ne:
        if not c.build_ok:
            if nne < 3:
                ctx.violation("oracle", dict(c.replay_obj(), gen_err=c.gen_err, build_err=c.build_err), "%s: generation failed or does not build: %s" % (c.fam, (c.gen_err or c.build_err)[:300]))
            nne += 1
            continue
        ctx.cov["programs"] += 1
        for di, d in enumerate(c.docs):
            o = d.get("obs") or {}
            ctx.count({"f": c.fam, "d": d["doc"]}, True, "nullable-enum")
            if o.get("v") != d["expect"] and nne < 3:
                ctx.violation("oracle", c.replay_obj(di), "%s: document %s (%s at %s) should be %s, the generated code answers %s %s" % (
                    c.fam, json.dumps(d["doc"]), d["cls"], "/".join(map(str, d["path"])), d["expect"], o.get("v"), o.get("err", "")[:120]))
                nne += 1
                break
    from vlib.valuecheck import report_tie
    report_tie(ctx, ne, "enum membership")
    def skip(c, d):
        # null at an optional (pointer) position is the generator-wide spelling of "absent" (see C09): not a membership question
        if d["cls"] != "enum" or not d["path"]:
            return False
        v, ok = get_path(d["doc"], d["path"])
        if v is not None:
            return False
        parent = site_schema(c, d["path"][:-1])
        if isinstance(d["path"][-1], str) and d["path"][-1] not in parent.get("required", []):
            return True
        # recorded finding C08-null-zero-member: null leaves the carrier at its zero value, which is then looked up in the list
        en = site_schema(c, d["path"]).get("enum", [])
        return any(e is False or e == "" or (not isinstance(e, bool) and isinstance(e, (int, float)) and e == 0) for e in en)

    nv = evaluate(ctx, cases, CLASSES, {"enum": "invalid", "enum-member": "valid", "valid": "valid", "optional-absent": "by-spec"}, "enum membership", skip=skip)
    # an accepted enum value marshals back to the bare JSON value it was decoded from
    for c in cases:
        if nv >= 6 or not c.build_ok:
            continue
        for di, d in enumerate(c.docs):
            o = d.get("obs") or {}
            if d["cls"] != "enum-member" or o.get("v") != "ACC":
                continue
            want, ok1 = get_path(d["doc"], d["path"])
            try:
                got, ok2 = get_path(json.loads(o["out"]), d["path"])
            except Exception:
                got, ok2 = None, False
            if want is None:
                continue                   # null: dropped by omitempty / nil pointer
            if ok1 and not (ok2 and json_eq(want, got)):
                ctx.violation("oracle", c.replay_obj(di), "enum value %s at %s marshals back as %s" % (json.dumps(want), "/".join(map(str, d["path"])), o.get("out", "")[:200]))
                nv += 1
                break
    # one typed constant per listed string value, holding that string
    for c in cases:
        if nv >= 6 or not c.build_ok:
            continue
        enums = []
        dg = Docs(c.schema, None)

        def walk(s):
            if not isinstance(s, dict):
                return
            if "enum" in s and all(isinstance(v, str) for v in s["enum"]) and (s.get("type") in (None, "string")):
                enums.append(s["enum"])
            for v in list(s.get("properties", {}).values()) + list(s.get("$defs", {}).values()) + list(s.get("definitions", {}).values()):
                walk(v)
            for k in ("items", "additionalProperties"):
                walk(s.get(k))
        walk(c.schema)
        consts = [k for sc in c.scan.values() for k in sc["consts"]]
        cvals = {}
        for name, ty, val in consts:
            try:
                cvals.setdefault(ty, set()).add(json.loads(val))
            except Exception:
                pass
        for vals in enums:
            if not any(set(vals) <= have for have in cvals.values()):
                ctx.violation("oracle", c.replay_obj(), "string enum %r: the package does not expose one typed constant per value (constants: %r)" % (vals, consts[:12]))
                nv += 1
                break
    from vlib.valuecheck import replay_findings
    from vlib import regress
    regress.search(ctx, {"C08"})          # the shape-agnostic search step (DESIGN.md 12.8)
    replay_findings(ctx)
    ctx.cov["rule"] = ("systematic: 11 enum lists (strings, one value, five values, integers, numbers, booleans, mixed, with null, null first, numeric-looking strings) "
                       "x typed/untyped x 7 positions (required, optional, $ref, array item, item by reference, with default, nested); documents: every member and near-miss "
                       "non-members of every JSON type at every enum position; constants read with go/parser; random: enum-focused in-guard schemas; "
                       "non-trivial = a mutant; distinct by hash of (schema, document)")
    c = cases[4]
    ctx.sample({"family": c.fam, "schema": c.schema, "doc": c.docs[1]["doc"], "class": c.docs[1]["cls"], "impl": (c.docs[1].get("obs") or {}).get("v")})
