"""C15 - --min-sized-ints never changes which documents are accepted."""
import itertools
import json
from fractions import Fraction as F

from vlib.gal import (q_str, rat_str, opt, bool_term, bounds_term, ex_json, ex_schema, num_json, z_term, INTK,
                      parse_nlist, parse_pairs)
from vlib.progs import Batch

PROPS_FILE = "Props/C15.v"

LIMS = [-2 ** 31, -2 ** 15, -2 ** 7, 0, 2 ** 7 - 1, 2 ** 8 - 1, 2 ** 15 - 1, 2 ** 16 - 1, 2 ** 31 - 1, 2 ** 32 - 1]
PAL = sorted(set([t + d for t in LIMS for d in (-1, 0, 1)] + [-2 ** 63, 2 ** 53, 2 ** 63, 2 ** 64]))
RL = [-2 ** 63, -2 ** 31 - 1, -2 ** 31, -2 ** 15, -2 ** 7, -1, 0, 1]
RU = [2 ** 7 - 1, 2 ** 7, 2 ** 8 - 1, 2 ** 8, 2 ** 15 - 1, 2 ** 16 - 1, 2 ** 16, 2 ** 31 - 1, 2 ** 32 - 1, 2 ** 32, 2 ** 63, 2 ** 64]


def lower_forms(v):
    """spellings whose tightest inclusive integer lower bound is v (last one: a looser numeric exclusive bound)"""
    return [{"min": v}, {"exmin": v - 1}, {"min": v - 1, "exmin": True}, {"min": v, "exmin": False},
            {"min": v - 3, "exmin": v - 1}, {"min": v, "exmin": v - 5}]


def upper_forms(v):
    return [{"max": v}, {"exmax": v + 1}, {"max": v + 1, "exmax": True}, {"max": v, "exmax": False},
            {"max": v + 3, "exmax": v + 1}, {"max": v, "exmax": v + 5}]


def exact(c):
    for k in ("min", "max", "exmin", "exmax"):
        v = c.get(k)
        if v is None or isinstance(v, bool):
            continue
        if float(v) != v:
            return False
        if F(float(v)) != F(v):
            return False
    return True


def direct_cases(ctx):
    cases = []
    for mn, mx in itertools.product([None] + PAL, [None] + PAL):
        cases.append({"min": mn, "max": mx, "fam": "pairs"})
    for lo, hi in itertools.product(RL, RU):
        for lf, uf in itertools.product(lower_forms(lo), upper_forms(hi)):
            c = dict(lf)
            c.update(uf)
            c["fam"] = "forms"
            cases.append(c)
    for lf in [f for v in RL for f in lower_forms(v)]:
        c = dict(lf)
        c["fam"] = "one-sided"
        cases.append(c)
    for uf in [f for v in RU for f in upper_forms(v)]:
        c = dict(uf)
        c["fam"] = "one-sided"
        cases.append(c)
    # fractional constants: correspondence only (outside the guard of the oracle)
    fr = [F(-257, 2), F(-1, 2), F(1, 2), F(255, 2), F(511, 2), F(513, 2)]
    for mn, mx in itertools.product([None] + fr, [None] + fr):
        cases.append({"min": mn, "max": mx, "fam": "fractional"})
    out = []
    for c in cases:
        for k in ("min", "max", "exmin", "exmax"):
            c.setdefault(k, None)
        if exact(c):
            out.append(c)
    if ctx.tier == "quick":
        # deterministic thinning of the largest family
        keep = []
        n = 0
        for c in out:
            if c["fam"] == "forms":
                n += 1
                if n % 2:
                    continue
            keep.append(c)
        out = keep
    return out


def args_of(c):
    return {"fn": "primitive", "type": "integer", "minint": True,
            "min": None if c["min"] is None else rat_str(c["min"]), "max": None if c["max"] is None else rat_str(c["max"]),
            "exmin": ex_json(c["exmin"]), "exmax": ex_json(c["exmax"])}


def res_bounds(r):
    def ex(v):
        return v if (v is None or isinstance(v, bool)) else F(v)
    return {"min": None if r["min"] is None else F(r["min"]), "max": None if r["max"] is None else F(r["max"]),
            "exmin": ex(r["exmin"]), "exmax": ex(r["exmax"])}


def run_direct(ctx):
    cases = direct_cases(ctx)
    req = [args_of(c) for c in cases]
    res = ctx.jsonl("direct", req)
    lines = []
    integral = set()
    for i, (c, r) in enumerate(zip(cases, res)):
        fam = "primitive-direct/" + c["fam"]
        if "panic" in r or "harness_error" in r or "err" in r or r.get("type") not in INTK:
            ctx.violation("oracle", {"kind": "direct", "args": req[i], "impl_result": r},
                          "PrimitiveTypeFromJSONSchemaType(integer, minSized) failed or returned an unknown type: %s" % r)
            continue
        lines.append("mkP %d %s %s %s" % (i, bounds_term(c), INTK[r["type"]], bounds_term(res_bounds(r))))
        ctx.count(req[i], any(c[k] is not None for k in ("min", "max", "exmin", "exmax")), fam)
        if c["fam"] != "fractional":
            integral.add(i)
    text = ("From GJS Require Import Base Bounds IntSize RunC15.\nDefinition cases : list pcase := [\n  " + ";\n  ".join(lines) + "].\n"
            "Definition MM := Eval vm_compute in p_mismatches cases.\n"
            "Definition OO := Eval vm_compute in p_oracle cases.\n")
    vals = ctx.coq_lists("c15_direct", text, ["MM", "OO"], timeout=1800)
    mism = parse_nlist(vals["MM"])
    orc = dict(parse_pairs(vals["OO"]))
    ctx.cov["disagreements_checked"] += len(lines)
    for f in ctx.cov["families"]:
        if f.startswith("primitive-direct"):
            ctx.cov["families"][f]["exhaustive"] = (ctx.tier == "thorough")
    ctx.cov["families"]["primitive-direct/pairs"]["mismatches"] = len(mism)
    ctx.sample({"family": "primitive-direct", "args": req[len(req) // 3], "impl": res[len(req) // 3]})
    n = 0
    for i, x in sorted(orc.items()):
        if i not in integral:
            continue
        ctx.violation("oracle", {"kind": "direct", "args": req[i], "impl_result": res[i], "value": x,
                                 "expected": "flag-on acceptance (chosen kind + remaining keywords) == flag-off acceptance"},
                      "--min-sized-ints changes the verdict for %d under %s (type %s, remaining %s)"
                      % (x, json.dumps({k: req[i][k] for k in ("min", "max", "exmin", "exmax")}), res[i]["type"],
                         json.dumps({k: res[i][k] for k in ("min", "max", "exmin", "exmax")})))
        n += 1
        if n >= 5:
            break
    for i in mism:
        if i in orc and i in integral:
            continue
        ctx.violation("tie", {"kind": "direct", "args": req[i], "impl_result": res[i],
                              "correspondence": "RunC15.p_agrees (Model/IntSize.primitive_int vs codegen.PrimitiveTypeFromJSONSchemaType)"},
                      "min-sized type selection differs from the model on %s: %s (no probe value changes its verdict)"
                      % (json.dumps(req[i]), json.dumps(res[i])), no_input=True)
        break


# ------------------------------------------------------------------ end to end
def e2e_schemas(ctx):
    rng = ctx.rng
    combos = []
    for lo, hi in itertools.product(RL[1:], RU[:-2]):
        for lf, uf in itertools.product(lower_forms(lo), upper_forms(hi)):
            c = dict(lf)
            c.update(uf)
            combos.append(c)
    for f in [f for v in RL[1:] for f in lower_forms(v)] + [f for v in RU[:-2] for f in upper_forms(v)]:
        combos.append(dict(f))
    rng.shuffle(combos)
    n = 40 if ctx.tier == "quick" else 400
    # always include the shapes of the repaired defect D2
    fixed = [{"min": 0, "exmax": 100}, {"min": 0, "exmin": True, "max": 10}, {"exmin": -1}, {"min": -128, "max": 127},
             {"min": 0, "max": 255}, {"exmin": -129, "exmax": 128}]
    out = []
    for c in fixed + combos[:n]:
        for k in ("min", "max", "exmin", "exmax"):
            c.setdefault(k, None)
        if not exact(c):
            continue
        out.append(c)
    return out


def lo_hi(c):
    lo = []
    hi = []
    if c["min"] is not None:
        lo.append(c["min"] + (1 if c["exmin"] is True else 0))
    if c["exmin"] is not None and not isinstance(c["exmin"], bool):
        lo.append(c["exmin"] + 1)
    if c["max"] is not None:
        hi.append(c["max"] - (1 if c["exmax"] is True else 0))
    if c["exmax"] is not None and not isinstance(c["exmax"], bool):
        hi.append(c["exmax"] - 1)
    return (max(lo) if lo else None, min(hi) if hi else None)


def run_e2e(ctx):
    combos = e2e_schemas(ctx)
    b = Batch(ctx, "c15")
    positions = ["required", "optional", "nullable", "definition", "definition-required"]      # declared types go through another call site of the type selection
    meta = []
    for i, c in enumerate(combos):
        lo, hi = lo_hi(c)
        if lo is not None and hi is not None and lo > hi:
            continue      # contradictory bounds: the sized literal may not even fit the type (C01's business)
        pos = positions[i % 5]
        mult = [None, None, 3, 5][i % 4]
        prop = {"type": ["integer", "null"] if pos == "nullable" else "integer"}
        for k, kw in (("min", "minimum"), ("max", "maximum")):
            if c[k] is not None:
                prop[kw] = num_json(c[k])
        for k, kw in (("exmin", "exclusiveMinimum"), ("exmax", "exclusiveMaximum")):
            if c[k] is not None:
                prop[kw] = ex_schema(c[k])
        if mult:
            prop["multipleOf"] = mult
        fmtk = [None, "int32", None, "int64", "uint32", None, "int8", "int16"][i % 8]      # a width hint is an annotation: the admitted integers are the same
        if fmtk:
            prop["format"] = fmtk
        schema = {"type": "object", "properties": {"x": prop}}
        if pos.startswith("definition"):
            schema = {"type": "object", "$defs": {"N": prop}, "properties": {"x": {"$ref": "#/$defs/N"}}}
        if pos in ("required", "definition-required"):
            schema["required"] = ["x"]
        vals = set()
        for v in [lo, hi] + [t for t in (-2 ** 31, -2 ** 15, -128, 0, 127, 255, 32767, 65535, 2 ** 31 - 1, 2 ** 32 - 1)]:
            if v is None:
                continue
            for d in (-1, 0, 1):
                if -2 ** 63 <= v + d <= 2 ** 63 - 1:
                    vals.add(v + d)
        vals = sorted(vals)
        if ctx.tier == "quick":
            vals = [v for v in vals if (lo is not None and abs(v - lo) <= 1) or (hi is not None and abs(v - hi) <= 1)] + \
                   [v for v in vals if v in (-129, -128, 127, 128, 255, 256, 0, -1)]
            if fmtk:
                vals += [v for v in (-2 ** 31 - 1, -2 ** 31, 2 ** 31 - 1, 2 ** 31, 2 ** 32, -32769, 32768, 65536) if (lo is None or v >= lo - 1) and (hi is None or v <= hi + 1)]
            vals = sorted(set(vals))
        for flag in (False, True):
            cid = "c%d%s" % (i, "on" if flag else "off")
            jobs = [{"t": "S", "doc": json.dumps({"x": v}), "x": v} for v in vals]
            if pos not in ("required", "definition-required"):
                jobs.append({"t": "S", "doc": "{}", "x": None})
                jobs.append({"t": "S", "doc": '{"x": null}', "x": None})
            b.add({"id": cid, "cfg": {"min_sized_ints": flag, "tags": ["json"], "mappings": [{"id": "", "root": "S", "package": cid, "output": cid + "/gen.go"}]},
                   "files": {"s.json": json.dumps(schema)}, "argv": ["s.json"], "jobs": jobs})
            meta.append((cid, i, flag, c, mult, pos, schema))
    b.run()
    lines = []
    idx = {}
    n = 0
    for cid, i, flag, c, mult, pos, schema in meta:
        case = b.case(cid)
        if not case["gen"]["ok"] or not case["build_ok"]:
            ctx.violation("oracle", {"kind": "e2e", "cfg": case["cfg"], "files": case["files"], "gen": case["gen"].get("err") or case["gen"].get("panic"),
                                     "build_err": case["build_err"]},
                          "generation or compilation failed for an integer schema with consistent bounds (flag %s)" % flag)
            continue
        ctx.cov["programs"] += 1
        for j in case["jobs"]:
            o = j["obs"]
            ctx.count({"s": schema, "flag": flag, "doc": j["doc"]}, True, "e2e-flag-pair")
            if j["x"] is None:
                if o["v"] != "ACC":
                    ctx.violation("oracle", {"kind": "e2e", "cfg": case["cfg"], "files": case["files"], "doc": j["doc"], "obs": o},
                                  "absent/null optional integer was checked (flag %s): %s" % (flag, o.get("err")))
                continue
            n += 1
            idx[n] = (cid, j)
            lines.append("mkE %d %s %s %s %s %s" % (n, bool_term(flag), opt(None if mult is None else F(mult), q_str), bounds_term(c),
                                                     z_term(j["x"]), bool_term(o["v"] == "ACC")))
    # oracle: flag-on verdict == flag-off verdict on every document
    byoff = {}
    for cid, i, flag, c, mult, pos, schema in meta:
        case = b.case(cid)
        if not case["build_ok"]:
            continue
        for j in case["jobs"]:
            byoff.setdefault((i, j["doc"]), {})[flag] = (j["obs"]["v"], case, j)
    nviol = 0
    for (i, doc), d in sorted(byoff.items(), key=lambda kv: (kv[0][0], kv[0][1])):
        if False in d and True in d and d[False][0] != d[True][0]:
            case_on = d[True][1]
            ctx.violation("oracle", {"kind": "e2e", "files": case_on["files"], "argv": case_on["argv"], "doc": doc,
                                     "verdict_flag_off": d[False][0], "verdict_flag_on": d[True][0],
                                     "cfg_on": case_on["cfg"], "err_on": d[True][2]["obs"].get("err"), "err_off": d[False][2]["obs"].get("err")},
                          "--min-sized-ints changes the verdict of %s: off=%s on=%s" % (doc, d[False][0], d[True][0]))
            nviol += 1
            if nviol >= 5:
                break
    if lines:
        text = ("From GJS Require Import Base Bounds IntSize RunC15.\nDefinition cases : list ecase := [\n  " + ";\n  ".join(lines) + "].\n"
                "Definition MM := Eval vm_compute in e_mismatches cases.\n")
        vals = ctx.coq_lists("c15_e2e", text, ["MM"], timeout=1800)
        mism = parse_nlist(vals["MM"])
        ctx.cov["disagreements_checked"] += len(lines)
        ctx.cov["families"].setdefault("e2e-flag-pair", {})["mismatches"] = len(mism)
        if mism and nviol == 0:
            cid, j = idx[mism[0]]
            case = b.case(cid)
            ctx.violation("tie", {"kind": "e2e", "cfg": case["cfg"], "files": case["files"], "doc": j["doc"], "obs": j["obs"],
                                  "correspondence": "RunC15.e_mismatches (Model/IntSize.accept_flag vs generated code)"},
                          "generated integer check differs from the model on %s (flag-on and flag-off still agree)" % j["doc"], no_input=True)
        if meta:
            cid = meta[0][0]
            ctx.sample({"family": "e2e-flag-pair", "schema": meta[0][6], "doc": b.case(cid)["jobs"][0]["doc"], "obs": b.case(cid)["jobs"][0]["obs"]["v"]})


def run_shapes(ctx):
    """the same flag pair with the bounded integer in other surroundings than a plain property: array items, map values, a nested object, an inline allOf
    member, and a DECLARED object that has `properties` of its own next to an `allOf` (root and definition) - whatever the generator makes of the shape,
    the flag must not change which documents are accepted.  (allOf whose first member is a `$ref` is the recorded finding C15-minsized-allof-ref-loses-bounds.)"""
    b = Batch(ctx, "c15s")
    meta = []
    in_range = {}
    n = 0
    for lo, hi in ((0, 255), (-128, 127), (0, 65535), (1, 100)):
        leaf = {"type": "integer", "minimum": lo, "maximum": hi}
        extra = {"type": "object", "properties": {"tag": {"type": "string"}}}
        shapes = {
            "items": ({"type": "object", "properties": {"l": {"type": "array", "items": leaf}}}, lambda v: {"l": [lo, v]}),
            "map-values": ({"type": "object", "properties": {"m": {"type": "object", "additionalProperties": leaf}}}, lambda v: {"m": {"k": v}}),
            "nested": ({"type": "object", "properties": {"o": {"type": "object", "properties": {"x": leaf}, "required": ["x"]}}}, lambda v: {"o": {"x": v}}),
            "inline-allOf-member": ({"type": "object", "properties": {"u": {"allOf": [{"type": "object", "properties": {"x": leaf}}, extra]}}}, lambda v: {"u": {"x": v, "tag": "t"}}),
            "root-properties-next-to-allOf": ({"type": "object", "properties": {"level": leaf}, "allOf": [extra]}, lambda v: {"level": v, "tag": "t"}),
            "definition-properties-next-to-allOf": ({"type": "object", "$defs": {"Device": {"type": "object", "properties": {"level": leaf}, "allOf": [extra]}},
                                                     "properties": {"d": {"$ref": "#/$defs/Device"}}}, lambda v: {"d": {"level": v, "tag": "t"}}),
            "definition-properties-next-to-anyOf": ({"type": "object", "$defs": {"Device": {"type": "object", "properties": {"level": leaf}, "anyOf": [extra, {"type": "object", "properties": {"n": {"type": "integer"}}}]}},
                                                     "properties": {"d": {"$ref": "#/$defs/Device"}}}, lambda v: {"d": {"level": v, "tag": "t"}}),
        }
        vals = sorted(set([lo - 1, lo, lo + 1, hi - 1, hi, hi + 1, 70000, -70000, 256, -129]))
        for sn, (schema, mk) in shapes.items():
            in_range[n] = (lambda lo_, hi_: (lambda v: lo_ <= v <= hi_))(lo, hi)
            for flag in (False, True):
                cid = "s%d%s" % (n, "on" if flag else "off")
                jobs = [{"t": "S", "doc": json.dumps(mk(v)), "x": v} for v in vals]
                b.add({"id": cid, "cfg": {"min_sized_ints": flag, "tags": ["json"], "mappings": [{"id": "", "root": "S", "package": cid, "output": cid + "/gen.go"}]},
                       "files": {"s.json": json.dumps(schema)}, "argv": ["s.json"], "jobs": jobs})
                meta.append((cid, n, flag, sn, schema))
            n += 1
    # two definitions that collide on one Go name and whose bounds differ by 1 at a type limit (itemCount 0..2^32, item_count 0..2^32-1): each keeps its own
    for hia, hib in ((4294967296, 4294967295), (2147483648, 2147483647), (65536, 65535), (9007199254740993, 9007199254740992)):
        schema = {"type": "object", "$defs": {"itemCount": {"type": "integer", "minimum": 0, "maximum": hia}, "item_count": {"type": "integer", "minimum": 0, "maximum": hib}},
                  "properties": {"current": {"$ref": "#/$defs/itemCount"}, "legacy": {"$ref": "#/$defs/item_count"}}}
        for key in ("legacy", "current"):
            vals2 = [hib - 1, hib, hia, hia + 1, 0, -1]
            in_range[n] = (lambda v: True)
            for flag in (False, True):
                cid = "s%d%s" % (n, "on" if flag else "off")
                jobs = [{"t": "S", "doc": json.dumps({key: v}), "x": v} for v in vals2]
                b.add({"id": cid, "cfg": {"min_sized_ints": flag, "tags": ["json"], "mappings": [{"id": "", "root": "S", "package": cid, "output": cid + "/gen.go"}]},
                       "files": {"s.json": json.dumps(schema)}, "argv": ["s.json"], "jobs": jobs})
                meta.append((cid, n, flag, "colliding-definitions-bounds-one-apart", schema))
            n += 1
    b.run()
    by = {}
    for cid, i, flag, sn, schema in meta:
        by.setdefault(i, {})[flag] = (b.case(cid), sn, schema)
    nviol = 0
    for i, d in sorted(by.items()):
        (off, sn, schema), (on, _, _) = d[False], d[True]
        okoff, okon = off["gen"]["ok"] and off["build_ok"], on["gen"]["ok"] and on["build_ok"]
        ctx.count({"shape": sn, "s": schema}, True, "shapes-flag-pair/" + sn)
        if okoff != okon:
            if nviol < 4:
                ctx.violation("oracle", {"kind": "e2e", "files": on["files"], "argv": on["argv"], "cfg_on": on["cfg"], "shape": sn, "gen_on": on["gen"].get("err"), "build_err_on": on["build_err"],
                                         "gen_off": off["gen"].get("err"), "build_err_off": off["build_err"]},
                              "%s: the schema is generated and builds with the flag %s only" % (sn, "off" if okoff else "on"))
            nviol += 1
            continue
        if not okoff:
            continue                   # refused or unbuildable either way: not this property's business
        ctx.cov["programs"] += 2
        for jo, jn in zip(off["jobs"], on["jobs"]):
            if sn in ("items", "map-values") and jo["obs"]["v"] == "ACC" and jn["obs"]["v"] == "REJ" and not in_range.get(i, lambda v: True)(jo["x"]):
                continue               # recorded finding C15-inline-item-bounds-enforced-only-by-sized-type (a consequence of D9)
            if jo["obs"]["v"] != jn["obs"]["v"]:
                if nviol < 4:
                    ctx.violation("oracle", {"kind": "e2e", "files": on["files"], "argv": on["argv"], "doc": jo["doc"], "verdict_flag_off": jo["obs"]["v"], "verdict_flag_on": jn["obs"]["v"],
                                             "cfg_on": on["cfg"], "shape": sn, "err_on": jn["obs"].get("err"), "err_off": jo["obs"].get("err")},
                                  "%s: --min-sized-ints changes the verdict of %s: off=%s on=%s" % (sn, jo["doc"], jo["obs"]["v"], jn["obs"]["v"]))
                nviol += 1
                break
    return nviol


def replay_findings(ctx):
    for f in ctx.findings():
        w = f.get("witness", {})
        if w.get("kind") == "e2e-pair":
            b = Batch(ctx, "c15kf")
            for flag in (False, True):
                cid = "k%s" % ("on" if flag else "off")
                b.add({"id": cid, "cfg": {"min_sized_ints": flag, "tags": ["json"], "mappings": [{"id": "", "root": "S", "package": cid, "output": cid + "/gen.go"}]},
                       "files": {"s.json": json.dumps(w["schema"])}, "argv": ["s.json"], "jobs": [{"t": "S", "doc": w["doc"]}]})
            b.run()
            von = b.case("kon")["jobs"][0].get("obs", {}).get("v")
            voff = b.case("koff")["jobs"][0].get("obs", {}).get("v")
            ctx.known(f, von != voff, "off=%s on=%s" % (voff, von))
        elif w.get("kind") == "direct":
            r = ctx.jsonl("direct", [w["args"]])[0]
            fails = any(r.get(k) != v for k, v in w["expected"].items())
            ctx.known(f, fails, "got %s" % r)


def run(ctx):
    ctx.proof_step(PROPS_FILE)
    run_direct(ctx)
    run_e2e(ctx)
    run_shapes(ctx)
    from vlib import regress
    regress.search(ctx, {"C15"})          # the shape-agnostic search step (DESIGN.md 12.8)
    replay_findings(ctx)
    ctx.cov["rule"] = ("primitive-direct: PrimitiveTypeFromJSONSchemaType(integer, minSized) on every (min,max) pair over the type limits +-1 "
                       "(pairs), every pair of 6 lower x 6 upper spellings over 8x12 threshold values (forms; every second one in the quick tier), "
                       "one-sided spellings, fractional constants (correspondence only); e2e-flag-pair: generated programs with the flag on and off "
                       "run on the integers next to each bound and type limit, absent and null; non-trivial = at least one bound keyword; distinct by hash")
    ctx.cov["exhaustive"] = False


def replay(ctx, path):
    obj = json.load(open(path))
    case = obj.get("case", obj.get("witness", {}))
    if case.get("kind") == "direct":
        r = ctx.jsonl("direct", [case["args"]])[0]
        print("implementation returns:", json.dumps(r))
        print("recorded:", json.dumps(case.get("impl_result")))
    elif case.get("kind") == "e2e":
        b = Batch(ctx, "c15rp")
        for flag in (False, True):
            cid = "r%s" % ("on" if flag else "off")
            b.add({"id": cid, "cfg": {"min_sized_ints": flag, "tags": ["json"], "mappings": [{"id": "", "root": "S", "package": cid, "output": cid + "/gen.go"}]},
                   "files": case["files"], "argv": case.get("argv", ["s.json"]), "jobs": [{"t": "S", "doc": case["doc"]}]})
        b.run()
        for cid in ("roff", "ron"):
            print(cid, json.dumps(b.case(cid)["jobs"][0].get("obs")), b.case(cid)["build_err"])
