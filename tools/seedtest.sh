#!/bin/bash
# usage: seedtest.sh <dir with patch.diff [demo.sh]> <property id> [confirm|check|both]
# confirm: on scratch copies of /repo: patch applies, suite passes with it, demo fails with it and passes without.
# check:   apply to /repo, run the property's quick check, revert.
set -u
D=$(realpath "$1"); P=$2; MODE=${3:-both}
export GOPROXY=off GOSUMDB=off GOTOOLCHAIN=local
if [ "$MODE" = confirm ] || [ "$MODE" = both ]; then
  S=$(mktemp -d /var/tmp/seedtest.XXXXXX)
  rsync -a --exclude .git /repo/ "$S/clean/"; rsync -a --exclude .git /repo/ "$S/mut/"
  (cd "$S/mut" && git init -q . 2>/dev/null && git apply "$D/patch.diff") || { echo "PATCH-DOES-NOT-APPLY"; rm -rf "$S"; exit 2; }
  (cd "$S/mut" && go build ./... ) || echo "MUTANT-DOES-NOT-BUILD"
  (cd "$S/mut" && go test -vet=off -count=1 ./... >/dev/null 2>&1 && cd tests && go test -vet=off -count=1 ./... > "$S/suite.log" 2>&1) && echo "suite-with-patch: PASS" || { echo "suite-with-patch: FAIL"; tail -20 "$S/suite.log"; }
  if [ -f "$D/demo.sh" ]; then
    (cd "$D" && timeout 600 bash ./demo.sh "$S/clean" > "$S/demo_clean.log" 2>&1); echo "demo on clean: exit $?"
    (cd "$D" && timeout 600 bash ./demo.sh "$S/mut" > "$S/demo_mut.log" 2>&1); echo "demo on mutant: exit $?"; tail -5 "$S/demo_mut.log"
  fi
  rm -rf "$S"
fi
if [ "$MODE" = check ] || [ "$MODE" = both ]; then
  git -C /repo status --short | grep -q . && { echo "/repo not clean"; exit 3; }
  git -C /repo apply "$D/patch.diff" || { echo "cannot apply to /repo"; exit 2; }
  for p in $P; do
    (cd /verif && timeout 3000 python3 tools/vcheck.py --property $p --tier ${TIER:-quick} 2>&1 | grep -E "VIOLATION|done:|Traceback|Error" | head -12)
  done
  git -C /repo checkout -- . ; git -C /repo status --short
fi
