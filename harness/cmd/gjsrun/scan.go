package main

import (
	"bytes"
	"encoding/json"
	"go/ast"
	"go/format"
	"go/parser"
	"go/printer"
	"go/token"
	"io"
	"sort"
	"strconv"
	"unicode"
	"unicode/utf8"
)

type scanCase struct {
	ID  string `json:"id"`
	Src string `json:"src"`
}

type scanField struct {
	Name string `json:"name"`
	Type string `json:"type"`
	Tag  string `json:"tag"`
}

type scanType struct {
	Name   string      `json:"name"`
	Kind   string      `json:"kind"` // struct | alias | other
	Expr   string      `json:"expr"`
	Fields []scanField `json:"fields,omitempty"`
}

type scanResult struct {
	ID         string      `json:"id"`
	ParseError string      `json:"parse_error,omitempty"`
	GofmtOK    bool        `json:"gofmt_ok"`
	Package    string      `json:"package"`
	Imports    [][2]string `json:"imports"` // alias, path
	Types      []scanType  `json:"types"`
	Methods    [][2]string `json:"methods"` // receiver, name
	Funcs      []string    `json:"funcs"`
	Consts     [][3]string `json:"consts"` // name, type, value
	Vars       []string    `json:"vars"`
	Bodies     map[string]string `json:"bodies"` // "recv.name" -> printed body
	VarValues  map[string]string `json:"var_values"`
}

func exprString(fset *token.FileSet, e ast.Expr) string {
	var b bytes.Buffer
	_ = printer.Fprint(&b, fset, e)

	return b.String()
}

func runScan(dec *json.Decoder, enc *json.Encoder) {
	for {
		var c scanCase
		if err := dec.Decode(&c); err != nil {
			if err == io.EOF {
				return
			}

			panic(err)
		}

		res := scanResult{ID: c.ID, Imports: [][2]string{}, Types: []scanType{}, Methods: [][2]string{},
			Funcs: []string{}, Consts: [][3]string{}, Vars: []string{}, Bodies: map[string]string{}, VarValues: map[string]string{}}

		fset := token.NewFileSet()

		f, err := parser.ParseFile(fset, "gen.go", c.Src, parser.ParseComments)
		if err != nil {
			res.ParseError = err.Error()
			_ = enc.Encode(res)

			continue
		}

		if formatted, ferr := format.Source([]byte(c.Src)); ferr == nil && bytes.Equal(formatted, []byte(c.Src)) {
			res.GofmtOK = true
		}

		res.Package = f.Name.Name

		for _, im := range f.Imports {
			alias := ""
			if im.Name != nil {
				alias = im.Name.Name
			}

			p, _ := strconv.Unquote(im.Path.Value)
			res.Imports = append(res.Imports, [2]string{alias, p})
		}

		for _, d := range f.Decls {
			switch d := d.(type) {
			case *ast.FuncDecl:
				if d.Recv != nil && len(d.Recv.List) == 1 {
					res.Methods = append(res.Methods, [2]string{exprString(fset, d.Recv.List[0].Type), d.Name.Name})
					if d.Body != nil {
						var bb bytes.Buffer
						_ = printer.Fprint(&bb, fset, d.Body)
						res.Bodies[exprString(fset, d.Recv.List[0].Type)+"."+d.Name.Name] = bb.String()
					}
				} else {
					res.Funcs = append(res.Funcs, d.Name.Name)
				}
			case *ast.GenDecl:
				for _, s := range d.Specs {
					switch s := s.(type) {
					case *ast.TypeSpec:
						t := scanType{Name: s.Name.Name, Kind: "other", Expr: exprString(fset, s.Type)}
						if s.Assign.IsValid() {
							t.Kind = "alias"
						}

						if st, ok := s.Type.(*ast.StructType); ok {
							t.Kind = "struct"
							t.Expr = "struct"

							for _, fl := range st.Fields.List {
								tag := ""
								if fl.Tag != nil {
									tag, _ = strconv.Unquote(fl.Tag.Value)
								}

								for _, n := range fl.Names {
									t.Fields = append(t.Fields, scanField{Name: n.Name, Type: exprString(fset, fl.Type), Tag: tag})
								}

								if len(fl.Names) == 0 {
									t.Fields = append(t.Fields, scanField{Name: "", Type: exprString(fset, fl.Type), Tag: tag})
								}
							}
						}

						res.Types = append(res.Types, t)
					case *ast.ValueSpec:
						for i, n := range s.Names {
							if d.Tok == token.CONST {
								ty, val := "", ""
								if s.Type != nil {
									ty = exprString(fset, s.Type)
								}

								if i < len(s.Values) {
									val = exprString(fset, s.Values[i])
								}

								res.Consts = append(res.Consts, [3]string{n.Name, ty, val})
							} else {
								res.Vars = append(res.Vars, n.Name)
								if i < len(s.Values) {
									res.VarValues[n.Name] = exprString(fset, s.Values[i])
								}
							}
						}
					}
				}
			}
		}

		sort.Slice(res.Types, func(i, j int) bool { return res.Types[i].Name < res.Types[j].Name })

		if err := enc.Encode(res); err != nil {
			panic(err)
		}
	}
}

// unitab: character information from Go's unicode package for the code points given.
type uniReq struct {
	CPs []int `json:"cps"`
}

type uniInfo struct {
	CP       int  `json:"cp"`
	Lower    bool `json:"lower"`
	Upper    bool `json:"upper"`
	Number   bool `json:"number"`
	Letter   bool `json:"letter"`
	Digit    bool `json:"digit"`
	ToUpper  int  `json:"to_upper"`
	ULetter  bool `json:"up_letter"`
	UUpper   bool `json:"up_upper"`
	ULower   bool `json:"up_lower"`
	ValidRun bool `json:"valid"`
	Fold     int  `json:"fold"`
}

func runUnitab(dec *json.Decoder, enc *json.Encoder) {
	for {
		var r uniReq
		if err := dec.Decode(&r); err != nil {
			if err == io.EOF {
				return
			}

			panic(err)
		}

		out := make([]uniInfo, 0, len(r.CPs))

		for _, cp := range r.CPs {
			ru := rune(cp)
			up := unicode.ToUpper(ru)
			out = append(out, uniInfo{
				CP: cp, Lower: unicode.IsLower(ru), Upper: unicode.IsUpper(ru), Number: unicode.IsNumber(ru),
				Letter: unicode.IsLetter(ru), Digit: unicode.IsDigit(ru), ToUpper: int(up),
				ULetter: unicode.IsLetter(up), UUpper: unicode.IsUpper(up), ULower: unicode.IsLower(up),
				ValidRun: utf8.ValidRune(ru), Fold: foldMin(ru),
			})
		}

		if err := enc.Encode(out); err != nil {
			panic(err)
		}
	}
}

// foldMin: least member of the simple-fold orbit of r (what strings.EqualFold identifies).
func foldMin(r rune) int {
	m := r
	for c := unicode.SimpleFold(r); c != r; c = unicode.SimpleFold(c) {
		if c < m {
			m = c
		}
	}

	return int(m)
}
