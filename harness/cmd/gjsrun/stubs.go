package main

import "encoding/json"

func runScan(dec *json.Decoder, enc *json.Encoder)   {}
func runUnitab(dec *json.Decoder, enc *json.Encoder) {}
