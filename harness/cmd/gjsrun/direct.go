package main

import (
	"encoding/json"
	"fmt"
	"go/token"
	"io"
	"math"
	"math/big"
	"net/netip"
	"time"

	"github.com/atombender/go-jsonschema/pkg/codegen"
	"github.com/atombender/go-jsonschema/pkg/generator"
	"github.com/atombender/go-jsonschema/pkg/mathutils"
	"github.com/atombender/go-jsonschema/pkg/types"
)

// numbers travel as exact rationals "p/q" (or "p"); every value used by the families is
// exactly representable as a float64, which is checked here.
func ratToFloat(s string) (float64, error) {
	r, ok := new(big.Rat).SetString(s)
	if !ok {
		return 0, fmt.Errorf("bad rational %q", s)
	}

	f, exact := r.Float64()
	if !exact {
		return 0, fmt.Errorf("rational %q is not a float64", s)
	}

	return f, nil
}

func floatToRat(f float64) string {
	if math.IsInf(f, 0) || math.IsNaN(f) {
		return fmt.Sprintf("%v", f)
	}

	r := new(big.Rat).SetFloat64(f)

	return r.RatString()
}

type directCase struct {
	Fn string `json:"fn"`
	// normalize / primitive
	Min   *string         `json:"min"`
	Max   *string         `json:"max"`
	ExMin json.RawMessage `json:"exmin"` // null | true | false | "p/q"
	ExMax json.RawMessage `json:"exmax"`
	// primitive
	Type    string `json:"type"`
	Format  string `json:"format"`
	Pointer bool   `json:"pointer"`
	MinInt  bool   `json:"minint"`
	// identifierize
	Caps []string `json:"caps"`
	Exts []string `json:"exts"`
	S    string   `json:"s"`
}

func optF(p *string) (*float64, error) {
	if p == nil {
		return nil, nil
	}

	f, err := ratToFloat(*p)
	if err != nil {
		return nil, err
	}

	return &f, nil
}

func optEx(raw json.RawMessage) (*any, error) {
	if len(raw) == 0 || string(raw) == "null" {
		return nil, nil
	}

	var b bool
	if err := json.Unmarshal(raw, &b); err == nil {
		var a any = b

		return &a, nil
	}

	var s string
	if err := json.Unmarshal(raw, &s); err != nil {
		return nil, err
	}

	f, err := ratToFloat(s)
	if err != nil {
		return nil, err
	}

	var a any = f

	return &a, nil
}

func showF(p *float64) any {
	if p == nil {
		return nil
	}

	return floatToRat(*p)
}

func showEx(p *any) any {
	if p == nil {
		return nil
	}

	switch v := (*p).(type) {
	case bool:
		return v
	case float64:
		return floatToRat(v)
	default:
		return fmt.Sprintf("?%T", v)
	}
}

func runDirect(dec *json.Decoder, enc *json.Encoder) {
	for {
		var c directCase
		if err := dec.Decode(&c); err != nil {
			if err == io.EOF {
				return
			}

			panic(err)
		}

		res := map[string]any{}

		func() {
			defer func() {
				if r := recover(); r != nil {
					res = map[string]any{"panic": fmt.Sprint(r)}
				}
			}()

			switch c.Fn {
			case "normalize":
				mn, e1 := optF(c.Min)
				mx, e2 := optF(c.Max)
				emn, e3 := optEx(c.ExMin)
				emx, e4 := optEx(c.ExMax)

				for _, e := range []error{e1, e2, e3, e4} {
					if e != nil {
						res["harness_error"] = e.Error()

						return
					}
				}

				// keep copies to detect writes through the argument pointers
				var mn0, mx0 *float64
				if mn != nil {
					v := *mn
					mn0 = &v
				}

				if mx != nil {
					v := *mx
					mx0 = &v
				}

				rmn, rmx, rex1, rex2 := mathutils.NormalizeBounds(mn, mx, emn, emx)
				res["min"] = showF(rmn)
				res["max"] = showF(rmx)
				res["exmin"] = rex1
				res["exmax"] = rex2
				res["args_intact"] = (mn == nil || *mn == *mn0) && (mx == nil || *mx == *mx0)

			case "primitive":
				mn, e1 := optF(c.Min)
				mx, e2 := optF(c.Max)
				emn, e3 := optEx(c.ExMin)
				emx, e4 := optEx(c.ExMax)

				for _, e := range []error{e1, e2, e3, e4} {
					if e != nil {
						res["harness_error"] = e.Error()

						return
					}
				}

				t, err := codegen.PrimitiveTypeFromJSONSchemaType(c.Type, c.Format, c.Pointer, c.MinInt, &mn, &mx, &emn, &emx)
				if err != nil {
					res["err"] = err.Error()

					return
				}

				em := codegen.NewEmitter(80)
				t.Generate(em)
				res["type"] = em.String()
				res["min"] = showF(mn)
				res["max"] = showF(mx)
				res["exmin"] = showEx(emn)
				res["exmax"] = showEx(emx)

			case "identifierize":
				res["out"] = generator.VerifIdentifierize(c.Caps, c.Exts, c.S)

			case "fmtok":
				q, _ := json.Marshal(c.S)

				var err error

				switch c.Type {
				case "date-time":
					var v time.Time
					err = json.Unmarshal(q, &v)
				case "date":
					var v types.SerializableDate
					err = json.Unmarshal(q, &v)
				case "time":
					var v types.SerializableTime
					err = json.Unmarshal(q, &v)
				case "ipv4", "ipv6":
					var v netip.Addr
					err = json.Unmarshal(q, &v)
				default:
					err = fmt.Errorf("unknown format")
				}

				res["ok"] = err == nil

			case "isident":
				res["ident"] = token.IsIdentifier(c.S)
				res["exported"] = token.IsExported(c.S)

			case "identfile":
				res["out"] = generator.VerifIdentifierFromFileName(c.Caps, c.Exts, c.S)

			default:
				res["harness_error"] = "unknown fn " + c.Fn
			}
		}()

		if err := enc.Encode(res); err != nil {
			panic(err)
		}
	}
}
