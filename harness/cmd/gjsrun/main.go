// gjsrun: the implementation side of the correspondence checks.  It links the packages
// of /repo (through the replace directive) and exposes them over JSON lines.
//
//	gjsrun direct   < cases.jsonl > results.jsonl   pure functions (NormalizeBounds, PrimitiveType..., Identifierize)
//	gjsrun gen ROOT < cases.jsonl > results.jsonl   the generator, in-process, one case per line
//	gjsrun scan     < files.jsonl > decls.jsonl     declaration signatures of emitted Go files
package main

import (
	"bufio"
	"encoding/json"
	"fmt"
	"os"
)

func main() {
	if len(os.Args) < 2 {
		fmt.Fprintln(os.Stderr, "usage: gjsrun direct|gen|scan|unitab")
		os.Exit(2)
	}

	in := bufio.NewReaderSize(os.Stdin, 1<<20)
	out := bufio.NewWriterSize(os.Stdout, 1<<20)

	defer out.Flush()

	dec := json.NewDecoder(in)
	dec.UseNumber()

	enc := json.NewEncoder(out)
	enc.SetEscapeHTML(false)

	switch os.Args[1] {
	case "direct":
		runDirect(dec, enc)
	case "gen":
		root := ""
		if len(os.Args) > 2 {
			root = os.Args[2]
		}

		runGen(dec, enc, root)
	case "scan":
		runScan(dec, enc)
	case "unitab":
		runUnitab(dec, enc)
	default:
		fmt.Fprintln(os.Stderr, "unknown subcommand", os.Args[1])
		os.Exit(2)
	}
}
