package main

import (
	"encoding/json"
	"fmt"
	"io"
	"os"
	"path/filepath"
	"sort"

	"github.com/atombender/go-jsonschema/pkg/generator"
)

type genCfg struct {
	ExtraImports        bool     `json:"extra_imports"`
	OnlyModels          bool     `json:"only_models"`
	MinSizedInts        bool     `json:"min_sized_ints"`
	StructNameFromTitle bool     `json:"struct_name_from_title"`
	Tags                []string `json:"tags"`
	Capitalizations     []string `json:"capitalizations"`
	ResolveExtensions   []string `json:"resolve_extensions"`
	YAMLExtensions      []string `json:"yaml_extensions"`
	DefaultPackage      string   `json:"default_package"`
	DefaultOutput       string   `json:"default_output"`
	Mappings            []struct {
		ID      string `json:"id"`
		Package string `json:"package"`
		Root    string `json:"root"`
		Output  string `json:"output"`
	} `json:"mappings"`
}

type genCase struct {
	ID    string            `json:"id"`
	Cfg   genCfg            `json:"cfg"`
	Files map[string]string `json:"files"` // relative path -> content
	Argv  []string          `json:"argv"`  // relative paths, in order
}

type genResult struct {
	ID       string            `json:"id"`
	OK       bool              `json:"ok"`
	Err      string            `json:"err,omitempty"`
	Panic    string            `json:"panic,omitempty"`
	Warnings []string          `json:"warnings"`
	Outputs  map[string]string `json:"outputs"`
	Dir      string            `json:"dir"`
}

func runGen(dec *json.Decoder, enc *json.Encoder, root string) {
	if root == "" {
		panic("gen needs a scratch root directory")
	}

	for {
		var c genCase
		if err := dec.Decode(&c); err != nil {
			if err == io.EOF {
				return
			}

			panic(err)
		}

		res := genResult{ID: c.ID, Warnings: []string{}, Outputs: map[string]string{}}
		dir := filepath.Join(root, c.ID)
		res.Dir = dir

		names := make([]string, 0, len(c.Files))
		for n := range c.Files {
			names = append(names, n)
		}

		sort.Strings(names)

		for _, n := range names {
			p := filepath.Join(dir, n)
			if err := os.MkdirAll(filepath.Dir(p), 0o755); err != nil {
				panic(err)
			}

			if err := os.WriteFile(p, []byte(c.Files[n]), 0o644); err != nil {
				panic(err)
			}
		}

		func() {
			defer func() {
				if r := recover(); r != nil {
					res.OK = false
					res.Panic = fmt.Sprint(r)
				}
			}()

			tags := c.Cfg.Tags
			if tags == nil {
				tags = []string{"json", "yaml", "mapstructure"}
			}

			yext := c.Cfg.YAMLExtensions
			if yext == nil {
				yext = []string{".yml", ".yaml"}
			}

			cfg := generator.Config{
				Warner:              func(m string) { res.Warnings = append(res.Warnings, m) },
				ExtraImports:        c.Cfg.ExtraImports,
				Capitalizations:     c.Cfg.Capitalizations,
				DefaultOutputName:   c.Cfg.DefaultOutput,
				DefaultPackageName:  c.Cfg.DefaultPackage,
				SchemaMappings:      []generator.SchemaMapping{},
				ResolveExtensions:   c.Cfg.ResolveExtensions,
				YAMLExtensions:      yext,
				StructNameFromTitle: c.Cfg.StructNameFromTitle,
				Tags:                tags,
				OnlyModels:          c.Cfg.OnlyModels,
				MinSizedInts:        c.Cfg.MinSizedInts,
			}

			for _, m := range c.Cfg.Mappings {
				cfg.SchemaMappings = append(cfg.SchemaMappings, generator.SchemaMapping{
					SchemaID: m.ID, PackageName: m.Package, RootType: m.Root, OutputName: m.Output,
				})
			}

			g, err := generator.New(cfg)
			if err != nil {
				res.Err = err.Error()

				return
			}

			for _, a := range c.Argv {
				if err := g.DoFile(filepath.Join(dir, a)); err != nil {
					res.Err = err.Error()

					return
				}
			}

			for name, src := range g.Sources() {
				res.Outputs[name] = string(src)
			}

			res.OK = true
		}()

		if err := enc.Encode(res); err != nil {
			panic(err)
		}
	}
}
