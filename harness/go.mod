module verifharness

go 1.23.0

replace github.com/atombender/go-jsonschema => /repo

require (
	github.com/atombender/go-jsonschema v0.16.0
	github.com/go-viper/mapstructure/v2 v2.1.0
	gopkg.in/yaml.v3 v3.0.1
)

require (
	dario.cat/mergo v1.0.1 // indirect
	github.com/goccy/go-yaml v1.16.0 // indirect
	github.com/google/go-cmp v0.7.0 // indirect
	github.com/mitchellh/go-wordwrap v1.0.1 // indirect
	github.com/pkg/errors v0.9.1 // indirect
	github.com/sanity-io/litter v1.5.8 // indirect
	golang.org/x/exp v0.0.0-20250408133849-7e4ce0ab07d0 // indirect
)
